#!/bin/sh
# tools/sensitivity.sh [glob]  - runs every own mutant (mutants/*.patch) and every seeded change (seeded/*/patch.diff)
# through the quick tier of the check of its property; prints CAUGHT / MISSED per change.
cd "$(dirname "$0")/.."
PAT="${1:-*}"
for f in mutants/$PAT.patch seeded/$PAT/patch.diff; do
  [ -f "$f" ] || continue
  case "$f" in
    mutants/*) PROP=$(sed -n 's/^# property=//p' "$f" | head -1); NAME=$(basename "$f" .patch) ;;
    *) NAME=$(basename "$(dirname "$f")"); PROP=$(echo "$NAME" | cut -c1-3 | tr a-z A-Z) ;;
  esac
  OUT=$(./tools/mutant_run.sh "$f" "$PROP" --cases "${SENS_CASES:-32}" 2>&1)
  if echo "$OUT" | grep -q "^VIOLATION property=$PROP"; then
    echo "CAUGHT $NAME $PROP $(echo "$OUT" | grep -E '^reproduced:' | head -1 | cut -c1-160)"
  else
    echo "MISSED $NAME $PROP $(echo "$OUT" | grep -E 'quick:|patch failed|HARNESS' | head -2 | tr '\n' ' ' | cut -c1-200)"
  fi
  SCR=$(echo "$OUT" | sed -n 's/.*scratch=//p' | head -1); [ -n "$SCR" ] && rm -rf "$SCR"
done
