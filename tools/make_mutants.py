#!/venv/bin/python
"""Builds /verif/mutants/<name>.patch from single-site source edits (own sensitivity mutants, DESIGN §5 lists).
Each entry: (name, property, file, old, new). Patches are produced against /repo HEAD in a scratch worktree."""
import os
import subprocess
import sys

HERE = os.path.dirname(os.path.dirname(os.path.abspath(__file__)))
SG = "src/safeds_stubgen/stubs_generator/_stub_string_generator.py"
GS = "src/safeds_stubgen/stubs_generator/_generate_stubs.py"
HP = "src/safeds_stubgen/stubs_generator/_helper.py"
AV = "src/safeds_stubgen/api_analyzer/_ast_visitor.py"
API = "src/safeds_stubgen/api_analyzer/_api.py"
DP = "src/safeds_stubgen/docstring_parsing/_docstring_parser.py"
GA = "src/safeds_stubgen/api_analyzer/_get_api.py"
CLI = "src/safeds_stubgen/api_analyzer/cli/_cli.py"

MUTANTS = [
    ("c08-imports-unsorted", "C08", SG, "        import_strings.sort()\n", ""),
    ("c08-todo-unsorted", "C08", SG, "        todo_msgs.sort()\n", ""),
    ("c08-union-unsorted", "C08", SG, "            types.sort()\n\n            if types:", "\n            if types:"),
    ("c08-typevars-unsorted", "C08", AV, "                type_var_types.sort(key=lambda x: x.name)\n", ""),
    ("c08-reexported-by-unsorted-class", "C08", AV, "        reexported_by.sort(key=lambda x: x.id)\n\n        # Get constructor docstring", "\n        # Get constructor docstring"),
    ("c08-api-classes-insertion-order", "C08", API, '"classes": [class_.to_dict() for class_ in sorted(self.classes.values(), key=lambda it: it.id)],', '"classes": [class_.to_dict() for class_ in self.classes.values()],'),
    ("c08-api-modules-insertion-order", "C08", API, '"modules": [module.to_dict() for module in sorted(self.modules.values(), key=lambda it: it.id)],', '"modules": [module.to_dict() for module in self.modules.values()],'),
    ("c08-reexport-elements-unsorted", "C08", SG, "            elements.sort(key=lambda x: x.name)\n", ""),
    ("c08-alias-no-same-module-preference", "C08", AV, "                    if self.mypy_file.fullname in type_path:\n                        qname = alias_qname\n                        break\n", "                    qname = alias_qname\n                    break\n"),
    ("c08-out-from-cwd", "C08", CLI, "        out_dir_path=args.out.resolve(),", "        out_dir_path=args.out.absolute(),"),
    ("c16-module-stub-append", "C16", GS, '        with file_path.open("w", encoding="utf-8") as f:\n            f.write(module_text)', '        with file_path.open("a", encoding="utf-8") as f:\n            f.write(module_text)'),
    ("c16-literal-to-dict-alias", "C16", "src/safeds_stubgen/api_analyzer/_types.py", '"literals": list(self.literals)}', '"literals": self.literals}'),
    ("c16-rename-on-model", "C16", SG, "                node = dataclasses.replace(node, name=alias)", "                node.name = alias"),
    ("c16-mkdir-exist-ok-false", "C16", GS, "        corrected_module_dir.mkdir(parents=True, exist_ok=True)", "        corrected_module_dir.mkdir(parents=True, exist_ok=not corrected_module_dir.exists())"),
    ("c16-generics-not-reset", "C16", SG, "        self.reexport_module_id = \"\"\n        self.class_generics = []\n", "        self.reexport_module_id = \"\"\n"),
    ("c16-imports-not-reset", "C16", SG, "        self.class_generics = []\n        self.module_imports = set()\n\n        self._current_todo_msgs", "        self.class_generics = []\n\n        self._current_todo_msgs"),
    ("c10-no-lstrip", "C10", GS, '        public_module_name = module_name.lstrip("_")', "        public_module_name = module_name"),
    ("c10-reexport-keep-last-segment", "C10", GS, '            corrected_module_dir = Path("/".join(module_dir.parts[:-1]))', "            corrected_module_dir = module_dir"),
    ("c10-api-file-from-package-name", "C10", CLI, 'f"{src_dir_path.name}__api.json"', 'f"{api.package}__api.json"'),
    ("c10-placeholder-always-append", "C10", GS, "    if Path.exists(file_path) and not first_creation:", "    if Path.exists(file_path):"),
    ("c10-out-relative-not-resolved", "C10", CLI, "        out_dir_path=args.out.resolve(),", "        out_dir_path=args.out,"),
    ("c01-touch-exist-ok-false", "C01", GS, "        Path(file_path).touch()\n", "        Path(file_path).touch(exist_ok=False)\n"),
    ("c01-swallow-write-error", "C01", GS, '        with file_path.open("w", encoding="utf-8") as f:\n            f.write(module_text)', '        try:\n            with file_path.open("w", encoding="utf-8") as f:\n                f.write(module_text)\n        except OSError as error:\n            logging.warning(error)'),
    ("c01-api-mkdir-no-parents", "C01", API, "    file.parent.mkdir(parents=True, exist_ok=True)", "    file.parent.mkdir(exist_ok=True)"),
    ("c01-retry-forever", "C01", GS, '        with file_path.open("w", encoding="utf-8") as f:\n            f.write(module_text)', '        while True:\n            try:\n                with file_path.open("w", encoding="utf-8") as f:\n                    f.write(module_text)\n                break\n            except OSError:\n                continue'),
    ("c01-swallow-everything-continue", "C01", GS, '        with file_path.open("w", encoding="utf-8") as f:\n            f.write(module_text)', '        try:\n            with file_path.open("w", encoding="utf-8") as f:\n                f.write(module_text)\n        except BaseException:  # noqa: BLE001\n            continue'),
    ("c13-description-drops-blank-lines", "C13", SG, "            else:\n                full_docstring += f\"\\n{indentations} *\"\n", "            else:\n                pass\n"),
    ("c13-description-keeps-first-paragraph-only", "C13", SG, "        splitted_docstring = description.split(\"\\n\")\n", "        splitted_docstring = description.split(\"\\n\\n\")[0].split(\"\\n\")\n"),
    ("c13-cache-key-short-name", "C13", DP, "        if self.__cached_node != qname or qname.endswith(\"__init__\"):\n            self.__cached_node = qname\n", "        short_name = qname.split(\".\")[-1]\n        if self.__cached_node != short_name or qname.endswith(\"__init__\"):\n            self.__cached_node = short_name\n"),
    ("c13-no-init-refresh", "C13", DP, '        if self.__cached_node != qname or qname.endswith("__init__"):', "        if self.__cached_node != qname:"),
    ("c13-keep-stale-docstring", "C13", DP, "            else:\n                self.__cached_docstring = None\n", "            else:\n                pass\n"),
]


def main() -> int:
    wt = f"/tmp/vsim-mkmut-{os.getpid()}"
    subprocess.run(["git", "-C", "/repo", "worktree", "add", "--detach", "-q", wt, "HEAD"], check=True)
    bad = 0
    try:
        for name, prop, rel, old, new in MUTANTS:
            path = os.path.join(wt, rel)
            src = open(path, encoding="utf-8").read()
            if src.count(old) != 1:
                print(f"SKIP {name}: pattern occurs {src.count(old)} times")
                bad += 1
                continue
            open(path, "w", encoding="utf-8").write(src.replace(old, new))
            diff = subprocess.run(["git", "-C", wt, "diff", "--", "src"], capture_output=True, text=True, check=True).stdout
            r = subprocess.run(["/venv/bin/python", "-c", f"import ast,sys; ast.parse(open({path!r}).read())"], capture_output=True, text=True)
            if r.returncode != 0:
                print(f"SKIP {name}: does not parse")
                bad += 1
            else:
                with open(os.path.join(HERE, "mutants", f"{name}.patch"), "w", encoding="utf-8") as f:
                    f.write(f"# property={prop}\n" + diff)
            subprocess.run(["git", "-C", wt, "checkout", "-q", "--", "."], check=True)
    finally:
        subprocess.run(["git", "-C", "/repo", "worktree", "remove", "--force", wt], check=False)
    print(f"{len(MUTANTS) - bad} mutants written, {bad} skipped")
    return 0


if __name__ == "__main__":
    sys.exit(main())
