#!/bin/sh
# Nothing is compiled: the checks import /repo/src as it is at call time.  This only verifies the toolchain offline.
set -e
cd "$(dirname "$0")/.."
/venv/bin/python - <<'PY'
import sys
sys.path.insert(0, ".")
import mypy.version, griffe  # noqa: F401
from vsim import runner, workload, engine  # noqa: F401
import os
assert os.path.isdir(runner.repo_src()), runner.repo_src()
print("vsim setup ok: python", sys.version.split()[0], "mypy", mypy.version.__version__, "repo", runner.repo_dir())
PY
