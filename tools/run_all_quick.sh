#!/bin/sh
cd "$(dirname "$0")/.."
for p in C01 C08 C10 C13 C16; do
  ./check $p --tier quick 2>&1 | grep -E "VIOLATION|KNOWN-FINDING|HARNESS|quick:" 
  echo "exit=$? ($p)"
done
