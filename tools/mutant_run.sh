#!/bin/sh
# tools/mutant_run.sh <patch-or-"revert:<commit>"> <check args...>
# Runs a check against a scratch worktree of /repo with the change applied; evidence/replays go to a scratch dir.
# Prints the check's output; exit status is the check's. The worktree is removed afterwards.
set -u
CHANGE="$1"; shift
case "$CHANGE" in revert:*) ;; /*) ;; *) CHANGE="$(pwd)/$CHANGE" ;; esac
N=$$
WT=/tmp/vsim-mut-$N
SCR=/tmp/vsim-mut-$N-out
git -C /repo worktree add --detach -q "$WT" HEAD || exit 3
cleanup() { git -C /repo worktree remove --force "$WT" >/dev/null 2>&1; rm -rf "$WT"; }
trap cleanup EXIT
case "$CHANGE" in
  revert:*) git -C "$WT" revert --no-commit "${CHANGE#revert:}" >/dev/null 2>&1 || { echo "revert failed"; exit 3; } ;;
  *) git -C "$WT" apply "$CHANGE" 2>/dev/null || git -C "$WT" apply --3way "$CHANGE" || { echo "patch failed"; exit 3; } ;;
esac
mkdir -p "$SCR/evidence" "$SCR/replays"
cd "$(dirname "$0")/.."
VERIF_REPO="$WT" VERIF_EVIDENCE_DIR="$SCR/evidence" VERIF_REPLAY_DIR="$SCR/replays" ./check "$@"
RC=$?
echo "mutant-run exit=$RC scratch=$SCR"
exit $RC
