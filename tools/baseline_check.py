#!/venv/bin/python
"""Run the repository's pinned test command (guard off: there is no guard, no hooks exist) and
compare the passing tests with /root/.vp/BASELINE.json's stable_pass list when that file exists."""
import json
import os
import subprocess
import sys
import tempfile
import xml.etree.ElementTree as ET

repo = os.environ.get("VERIF_REPO", "/repo")
fd, junit = tempfile.mkstemp(suffix=".xml")
os.close(fd)
cmd = ["/venv/bin/python", "-m", "pytest", "-ra", "-q", "-p", "no:cacheprovider", "--timeout=900",
       "--continue-on-collection-errors", f"--junitxml={junit}"]
env = dict(os.environ)
env.pop("SAFE_DS_STUB_GENERATOR_VERIF", None)
p = subprocess.run(cmd, cwd=repo, env=env, capture_output=True, text=True)
print(p.stdout[-1500:])
passed = set()
for tc in ET.parse(junit).getroot().iter("testcase"):
    if not any(ch.tag in ("failure", "error", "skipped") for ch in tc):
        passed.add(f"{tc.get('classname')}::{tc.get('name')}")
os.unlink(junit)
print(f"passed: {len(passed)}")
base = "/root/.vp/BASELINE.json"
if os.path.exists(base):
    stable = set(json.load(open(base))["stable_pass"])
    missing = sorted(stable - passed)
    print(f"baseline stable_pass: {len(stable)}, missing now: {len(missing)}")
    for m in missing[:20]:
        print("  MISSING", m)
    sys.exit(1 if missing else 0)
sys.exit(0 if p.returncode in (0, 1) and passed else 1)
