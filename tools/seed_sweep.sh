#!/bin/sh
# tools/seed_sweep.sh "<seeds>" [tier]  - runs every check under several VERIF_SEED values on the current tree
# (evidence and replays go to a scratch directory). Any VIOLATION here is either a genuine defect or a false alarm to triage.
cd "$(dirname "$0")/.."
SEEDS="${1:-2 3 5 8 13}"
TIER="${2:-quick}"
SCR=$(mktemp -d /tmp/vsim-seedsweep-XXXXXX)
mkdir -p "$SCR/evidence" "$SCR/replays"
for s in $SEEDS; do
  for p in C01 C08 C10 C13 C16; do
    OUT=$(VERIF_SEED=$s VERIF_EVIDENCE_DIR="$SCR/evidence" VERIF_REPLAY_DIR="$SCR/replays" ./check $p --tier $TIER 2>&1)
    RC=$?
    echo "seed=$s $p rc=$RC $(echo "$OUT" | grep -E "$TIER:" | tail -1)"
    echo "$OUT" | grep -E "^VIOLATION|^HARNESS|^reproduced|NOTE:" | cut -c1-300
  done
done
echo "replays kept in $SCR/replays"
