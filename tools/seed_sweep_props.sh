#!/bin/sh
# tools/seed_sweep_props.sh "<props>" "<seeds>"  - like seed_sweep.sh, for a subset of properties
cd "$(dirname "$0")/.."
PROPS="$1"; SEEDS="$2"
SCR=$(mktemp -d /tmp/vsim-seedsweep-XXXXXX)
mkdir -p "$SCR/evidence" "$SCR/replays"
for s in $SEEDS; do
  for p in $PROPS; do
    OUT=$(VERIF_SEED=$s VERIF_EVIDENCE_DIR="$SCR/evidence" VERIF_REPLAY_DIR="$SCR/replays" ./check $p --tier quick 2>&1)
    RC=$?
    echo "seed=$s $p rc=$RC $(echo "$OUT" | grep -E "quick:" | tail -1)"
    echo "$OUT" | grep -E "^VIOLATION|^HARNESS|^reproduced|NOTE:" | cut -c1-300
  done
done
echo "replays kept in $SCR/replays"
