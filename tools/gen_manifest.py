#!/usr/bin/env python3
"""Writes MANIFEST.json from the tables below (kept as a script so that the file stays valid and consistent)."""
import json
import os

HERE = os.path.dirname(os.path.dirname(os.path.abspath(__file__)))

TECH = "deterministic simulation with fault injection: seeded search over environment schedules, operation histories and I/O faults against the real tool in fresh interpreters; differential / reference-model oracles; minimised replay files"

CHECKS = {
    "C01": {
        "text": "Scoped claim, seeded exploration with fault injection: for generated packages, the repo's corpus and a fixed list of 138 probe modules the real CLI runs (a) fault-free under sampled schedules (hash seed, enumeration order, working directory incl. inside the package / a tests directory / a directory holding a decoy package of the same name / a read-only directory, path spellings, invocation style, hostile locale) x all 64 option combinations - the outcome must be 'completed' (API JSON loadable, every written stub present, the same set of analysed modules as the reference run - one run per case lists every directory in reversed order) or the documented rejection, never an exception raised by the tool's own code, an exit with a non-zero status, a death, a livelock of the docstring-loader retry loop or a watchdog timeout; (b) with injected write-side faults (ENOSPC/EACCES/EROFS/EIO/EMFILE at mkdir/touch/open/write/close incl. short writes, transient or persistent, and Ctrl-C inside an I/O call; the first fault of every plan walks round-robin through all 45 (life-cycle step, kind, persistence) combinations, its place is stratified by file class) - the run terminates, a run that reports success has exactly the reference output (also for files whose close is left to the finaliser), a run that fails fails with the injected error itself (identity or explicit cause); (c) into an obstructed output directory - failure only with the file system's own OSError; (d) into a directory populated by an earlier complete, failed or killed run - the run completes with the reference output. The 'for all programs' quantifier is only sampled by the workload.",
        "design_ref": "DESIGN.md §5.1",
        "note": "Trusted: seams/fault injection of vsim/child.py, exception classification by innermost frame under <repo>/src/safeds_stubgen. Read-side faults are out of scope of the property ('any package the type checker can load'). Input forms outside the workload are not covered (a program fuzzer is a different technique); known crashing input forms found on the way were repaired by 'fix:' commits and are kept as probe packages.",
    },
    "C08": {
        "text": "Seeded exploration: for each generated or corpus package the real CLI is run in fresh interpreters under the canonical schedule twice and under sampled schedule vectors (PYTHONHASHSEED; directory enumeration permutation; Module object-hash permutation; 13 kinds of working directory incl. read-only, inside the package, inside a tests/docs sub-directory, next to a decoy package, in a directory holding somebody else's mypy.ini/setup.cfg/pyproject.toml; invocation style / sys.path / PYTHONPATH; 7-9 spellings of source and output path incl. `..` detours, symlinked parents, `..` after a symlink, not-yet-existing nested output; environment incl. an uncoerced C locale with UTF-8 mode off, umask); a second run into the same directory; and a run in a process that has just analysed the same paths while the files held other contents (in-process re-analysis); the output trees must be byte-identical. Evidence of determinism on the explored schedules, not a proof over all 2^32 seeds x n! orders.",
        "design_ref": "DESIGN.md §5.2",
        "note": "Trusted: the sandbox/seam code in vsim/child.py and runner.py; mypy/griffe internals are real code but their own address-dependent behaviour is outside the seams. The workload (generated packages rich in ties + the repo's three test packages) bounds which ties are exercised.",
    },
    "C10": {
        "text": "Seeded exploration at the file-system seam: for each package the real CLI runs under sampled working directories, source/output path spellings (relative, trailing slash, ./, `..` detours, symlinked parents, `..` after a symlink, not-yet-existing nested output), invocation styles, enumeration orders and both naming settings, one run per case with an injected I/O error or process death, and one second run into the populated directory. From the complete mutation-event log and the final tree four clauses are judged: (1) every event on a stub/API path lies inside the resolved output directory and nothing appears elsewhere in the sandbox, also for failing/dying runs; (2) for every stub the directory spells the announced Python module path segment by segment and the base name is the module / the single top-level re-exported declaration / the re-exported module alias; (3) no path is written twice with different texts, no append to a file not created in the same run; (4) the inventory is '<source-directory-name>__api.json'. Exploration evidence over the sampled trees and invocations.",
        "design_ref": "DESIGN.md §5.3",
        "note": "Trusted: the event log of vsim/child.py (io.open/os.open/os.mkdir/... seams) and the small header recogniser in vsim/oracles/c10.py (validated on the repo's corpus packages). Clause 2 is output-only: it relates each file's own header to its path, no model of the expected layout is built.",
    },
    "C13": {
        "text": "Scoped claim (order/attachment clause only). Layer C: after one real get_api with a recording proxy around the docstring parser, the real queries (real mypy nodes) are replayed as seeded histories - random, A-B-A, documented->undocumented, homonymous short names, immediate repeats, locally shuffled and reversed walker order, two interleaved parser instances - on fresh parser instances; every answer, and every answer the real pipeline itself got, must equal the answer of a brand-new parser instance asked only that query (reference model of the one-entry cache). Layer E: generated docstrings carry a unique token per element/parameter/result/example/attribute (plus tokens in string literals that document nothing and in overridden private-base methods, which must appear nowhere); after a real run every token occurrence must sit in the documentation comment of its own element, inside its own class (or a subclass that inherits it), on the `@param`/`@result` line of its own name, and multi-line descriptions must be present line for line. The style-equivalence clause and 'line for line' for arbitrary texts are input-only and are not decided.",
        "design_ref": "DESIGN.md §5.4",
        "note": "Trusted: the recording proxy and loader memo of vsim/child_doc.py (the griffe tree is shared between reference instances, the parser's own cache is always cold), the comment/declaration recogniser of vsim/oracles/c13.py. Queries whose cold reference raises are excluded.",
    },
    "C16": {
        "text": "Seeded histories on state that survives between operations. (a) After one real get_api the child drives 8-13 seeded operations (full generations with either naming flag in seeded order, single-module renderings, module sequences rendered by one generator in permuted order, writes of the same data once or twice, JSON dumps) against ONE live API model and against pristine copies; after every operation api.to_dict() must equal its initial value, every generation must equal the reference generation, every module text and every written tree must be independent of what was rendered or written before, members inlined from one private base into several public classes must be rendered identically and in all of them, and every generation made with the run's own flag must equal the stub files a fresh CLI process wrote (independent reference). (b) Histories RUN;RUN (same and other working directory/spelling), RUN(injected I/O error or Ctrl-C);RUN and RUN(process death at a stratified mutation event);RUN over one output directory: the final tree must equal, path for path and byte for byte, the tree of a single clean run; in the thorough tier every 24th case enumerates every crash point of its stratum. Exploration evidence, not proof.",
        "design_ref": "DESIGN.md §5.5",
        "note": "Trusted: seams and fault injection in vsim/child.py; the pristine deep copy of the model as stand-in for a fresh model (its to_dict() equality is checked in every case). Only process death is modelled, not power loss. Crash/fault points are sampled (stratified over mkdir/open/write/close events), not enumerated, in the quick tier.",
    },
}

NOT_APPLICABLE = {
    "C02": "stub syntax is a pure function of the analysed text: no schedule, fault, clock or surviving state for a simulator to choose; needs a grammar-based input generator + recogniser (different technique)",
    "C03": "exactly-once is a conservation property of the input tree; its only I/O-history failure mode (a later file overwriting an earlier one) is decided under C10 clause 3 and its only order-dependent one under C08",
    "C04": "publicity is a pure predicate of names and re-exports ('any' semantics over its tables, order-free); schedule dependence would surface as a C08 difference",
    "C05": "type translation is a pure recursive function of the annotation; alias-table order effects are C08",
    "C06": "parameter lists are a pure function of the signature",
    "C07": "results are a pure function of annotation/body/docstring; the hash-order tie in inferred results was a C08 matter (found and fixed there)",
    "C09": "relation between two configurations of a pure string function",
    "C11": "import closure is a pure function of the package once C08 holds; first-match lookups in analysis order are caught as C08 differences",
    "C12": "JSON inventory is a pure function of the package; 'sorted whatever the analysis order' is C08",
    "C14": "2x2 configuration product over a pure function; log records are a function of the same inputs",
    "C15": "the filter is a pure per-file predicate on path components; enumeration order cannot change a per-file decision",
    "C17": "pure function of the class hierarchy; the analysis-order dependent class lookup is C08",
    "C18": "metamorphic relation between two independent runs on related inputs; nothing survives from one run to the next (mypy cache disabled), so an edit/run history degenerates to input generation",
    "C19": "algebraic laws of pure value types",
    "C20": "marker placement depends on declaration order inside the input; marker state is reset per module, no operation boundary the simulator could reorder",
}


def main() -> None:
    checks = []
    for pid in sorted(CHECKS):
        c = CHECKS[pid]
        checks.append(
            {
                "property_id": pid,
                "quick_cmd": f"./check {pid} --tier quick",
                "thorough_cmd": f"./check {pid} --tier thorough",
                "evidence_file": f"/verif/evidence/{pid}.json",
                "replay_cmd_template": "./check replay {path}",
                "engine": "vsim",
                "level_claimed": {"category": "exploration", "text": c["text"], "design_ref": c["design_ref"]},
                "level_note": c["note"],
                "technique": TECH,
            },
        )
    manifest = {
        "version": 1,
        "setup_cmd": "./tools/setup.sh",
        "hooks": {
            "guard": "SAFE_DS_STUB_GENERATOR_VERIF (unused: no hooks were added to /repo; every seam is a monkeypatch installed by the simulator's child process before the tool is imported)",
            "enable": "nothing to enable; checks import /repo/src as it is at call time (VERIF_REPO=<dir> points them at another checkout)",
            "baseline_off_cmd": "./tools/baseline_check.py",
            "source_commits": [],
            "add_only": True,
        },
        "engines": [
            {
                "name": "vsim",
                "path": "/verif/vsim",
                "serves_properties": sorted(CHECKS),
                "kind_free_text": "deterministic simulator: one fresh interpreter per simulated run with seeded seams on hash seed, directory enumeration, object hashes, cwd/argv/env/sys.path, clock and the file-mutation interface (event log + fault injection + process death)",
            },
        ],
        "checks": checks,
        "not_applicable": [{"property_id": k, "reason": v} for k, v in sorted(NOT_APPLICABLE.items()) if k not in CHECKS],
        "notes": "See DESIGN.md. Unguarded 'fix:' commits in /repo are listed in KNOWN_FINDINGS.txt as 'fixed:' entries.",
    }
    with open(os.path.join(HERE, "MANIFEST.json"), "w", encoding="utf-8") as f:
        json.dump(manifest, f, indent=1)
        f.write("\n")


if __name__ == "__main__":
    main()
