#!/bin/sh
# tools/run_benign.sh - every quick check against every behaviour-preserving refactoring under benign/ (must all exit 0)
cd "$(dirname "$0")/.."
for d in benign/*/; do
  n=$(basename "$d")
  for p in C01 C08 C10 C13 C16; do
    OUT=$(./tools/mutant_run.sh "benign/$n/patch.diff" $p --cases 32 2>&1)
    echo "$n $p $(echo "$OUT" | grep -E 'quick:|mutant-run exit|patch failed' | tr '\n' ' ' | cut -c1-200)"
    echo "$OUT" | grep -E "^VIOLATION|^reproduced|^HARNESS|NOTE:" | cut -c1-300
    SCR=$(echo "$OUT" | sed -n 's/.*scratch=//p' | head -1); [ -n "$SCR" ] && rm -rf "$SCR"
  done
done
