#!/bin/sh
# tools/confirm_seeded.sh <dir-with-patch.diff,demo.py,meta.json> <id>
# Confirms a seeded change in a fresh scratch worktree of /repo HEAD: demo passes without, fails with the patch,
# and the patched tree has the same failing tests as the clean tree. Stores the artefacts under /verif/seeded/<id>/.
set -u
SRC="$1"; ID="$2"
DEST="$(cd "$(dirname "$0")/.." && pwd)/seeded/$ID"
mkdir -p "$DEST"
cp "$SRC/patch.diff" "$SRC/meta.json" "$DEST/" 2>/dev/null
cp "$SRC"/demo.* "$DEST/" 2>/dev/null
WT=/tmp/vsim-confirm-$$
git -C /repo worktree add --detach -q "$WT" HEAD || exit 3
cleanup() { git -C /repo worktree remove --force "$WT" >/dev/null 2>&1; rm -rf "$WT"; }
trap cleanup EXIT
DEMO=$(ls "$DEST"/demo.* | head -1)
run_demo() { case "$DEMO" in *.py) timeout 900 /venv/bin/python "$DEMO" "$WT" ;; *) timeout 900 sh "$DEMO" "$WT" ;; esac; }
failing() { (cd "$WT" && timeout 1500 /venv/bin/python -m pytest -q -p no:cacheprovider --timeout=900 --continue-on-collection-errors -q 2>&1 | grep -E '^(FAILED|ERROR)' | sed 's/ - .*//' | sort); rm -rf "$WT/tests/data/out"; }
if [ ! -f /tmp/vsim-clean-failures-$(git -C /repo rev-parse --short HEAD).txt ]; then failing > /tmp/vsim-clean-failures-$(git -C /repo rev-parse --short HEAD).txt; fi
run_demo > "$DEST/demo_clean.log" 2>&1; RC_CLEAN=$?
git -C "$WT" apply --3way "$DEST/patch.diff" 2>"$DEST/apply.log" || git -C "$WT" apply "$DEST/patch.diff" 2>>"$DEST/apply.log" || { echo "PATCH DOES NOT APPLY"; cat "$DEST/apply.log"; exit 3; }
git -C "$WT" diff HEAD -- src > "$DEST/patch.diff.rebased"
run_demo > "$DEST/demo_patched.log" 2>&1; RC_PATCHED=$?
failing > "$DEST/failing_patched.txt"
NEWFAIL=$(comm -13 /tmp/vsim-clean-failures-$(git -C /repo rev-parse --short HEAD).txt "$DEST/failing_patched.txt" | wc -l)
echo "id=$ID demo_clean_rc=$RC_CLEAN demo_patched_rc=$RC_PATCHED new_failing_tests=$NEWFAIL"
if [ "$RC_CLEAN" = 0 ] && [ "$RC_PATCHED" != 0 ] && [ "$NEWFAIL" = 0 ]; then echo CONFIRMED; mv "$DEST/patch.diff.rebased" "$DEST/patch.diff"; rm -f "$DEST/apply.log"; exit 0; fi
echo NOT-CONFIRMED; exit 1
