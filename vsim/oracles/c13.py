"""C13 (scoped) - docstring text reaches the right element, whatever the order of analysis.

Layer C: histories of docstring queries on one parser vs. cold single-query references
(vsim/child_doc.py).  Layer E: every generated docstring carries a unique token; after a real run
each token occurrence in the stubs must sit in the documentation comment of its own element.
The style-equivalence clause of C13 is a pure function of (text, style) and is NOT decided here.
"""
from __future__ import annotations

import re

from .. import engine, runner, workload
from ..seeds import H, rng

PROP = "C13"

_TOKEN = re.compile(r"TK[MCFPRXAN][0-9]{4}Z")
_DECL = re.compile(r'^\s*(?:@PythonName\("(?P<pn>[^"]*)"\)\s+)?(?:static\s+)?(?P<kind>class|fun|attr|enum)\s+`?(?P<name>[A-Za-z_][A-Za-z0-9_]*)`?')
_PYNAME_LINE = re.compile(r'^\s*@PythonName\("([^"]*)"\)\s*$')


def parse_comments(text: str) -> tuple[list[dict], list[tuple[int, str]]]:
    """Doc comments with the declaration that directly follows each, and the lines outside any comment."""
    lines = text.split("\n")
    comments: list[dict] = []
    outside: list[tuple[int, str]] = []
    i = 0
    attr_decls: list[tuple[str, str]] = []  # (enclosing class, python name) of every `attr` declaration
    stack: list[tuple[int, str]] = []  # (indent, python name) of the class blocks that are open at the current line
    pending_pyname: str | None = None
    while i < len(lines):
        ln = lines[i]
        ind = len(ln) - len(ln.lstrip(" "))
        st = ln.strip()
        if st == "}":
            while stack and stack[-1][0] >= ind:
                stack.pop()
        mpn = _PYNAME_LINE.match(ln)
        if mpn:
            pending_pyname = mpn.group(1)
        mcls = re.match(r'^\s*(?:@PythonName\("([^"]*)"\)\s+)?class\s+`?([A-Za-z_][A-Za-z0-9_]*)`?', ln)
        if mcls:
            opens = ln.rstrip().endswith("{")
            if not opens and ln.rstrip().endswith("("):
                # constructor parameters on the following lines; the block opens where the parenthesis closes
                j = i + 1
                while j < len(lines) and not lines[j].strip().startswith(")") and j < i + 200:
                    j += 1
                opens = j < len(lines) and lines[j].strip().startswith(")") and lines[j].rstrip().endswith("{")
                if opens:
                    # the tool sometimes emits the `class` keyword of a nested class at a smaller indentation than its
                    # closing parenthesis/brace; the block's indentation is that of the closing parenthesis
                    ind = len(lines[j]) - len(lines[j].lstrip(" "))
            if opens:
                stack.append((ind, mcls.group(1) or pending_pyname or mcls.group(2)))
        mattr = _DECL.match(ln)
        if mattr and mattr.group("kind") == "attr" and stack:
            attr_decls.append((stack[-1][1], mattr.group("pn") or mattr.group("name")))
        if st and not st.startswith(("@", "//", "/**", "*")):
            pending_pyname = None
        if ln.strip().startswith("/**"):
            body = []
            j = i
            while j < len(lines) and not lines[j].strip().startswith("*/"):
                body.append(lines[j])
                j += 1
            j += 1
            # find the declaration that follows
            pyname = None
            decl = None
            k = j
            while k < len(lines):
                s = lines[k]
                if s.strip() == "" or s.strip().startswith(("@Pure", "// TODO")):
                    if s.strip() == "" and k > j + 1:
                        pass
                    k += 1
                    continue
                m = _PYNAME_LINE.match(s)
                if m:
                    pyname = m.group(1)
                    k += 1
                    continue
                if s.startswith(("package ", "@PythonModule(")):
                    decl = {"kind": "module", "name": "", "python_name": ""}
                    break
                m = _DECL.match(s)
                if m:
                    decl = {"kind": m.group("kind"), "name": m.group("name"), "python_name": m.group("pn") or pyname or m.group("name")}
                break
            comments.append({"line": i + 1, "text": "\n".join(body), "decl": decl, "enclosing": stack[-1][1] if stack else None})
            i = j
            continue
        outside.append((i + 1, ln))
        i += 1
    parse_comments.last_attr_decls = attr_decls  # type: ignore[attr-defined]
    return comments, outside


def _home_names(info: dict, aliases: dict | None = None) -> tuple[set[str], set[str]]:
    """(acceptable declaration kinds, acceptable python short names) of the element a token belongs to."""
    kinds, names = _home_names0(info)
    owner = info["owner"]
    for q, al in (aliases or {}).items():
        # an element re-exported under an alias is declared under that alias (also its members' owner prefix)
        if owner == q or owner.startswith(q + "."):
            if owner == q or owner == q + ".__init__":
                names |= set(al)
    return kinds, names


def _allowed_classes(info: dict, probes: dict, aliases: dict) -> set[str]:
    """Python names of the classes inside whose block a member's documentation may legitimately appear: the class that
    owns the member (or its re-export alias) and, for public members of a private base, the public subclasses into which
    they are inlined.  Empty when the owner is not a class member (module-level function) or unknown."""
    classes = sorted(probes.get("classes") or [], key=len, reverse=True)
    owner = info["owner"]
    cls_q = next((c for c in classes if owner == c or owner.startswith(c + ".")), None)
    if cls_q is None or owner == cls_q:
        return set()
    allowed = {cls_q.split(".")[-1]} | set(aliases.get(cls_q, []))
    for g in probes.get("inherit_groups") or []:
        base_like = {g["base"], g["base"].rsplit(".", 1)[0] + "._Root"}
        if cls_q in base_like:
            allowed |= {s.split(".")[-1] for s in g["subs"]}
            allowed |= {"PubOne"}  # inherits the other members even when it overrides one of them
    return allowed


def _home_names0(info: dict) -> tuple[set[str], set[str]]:
    kind, owner, name = info["kind"], info["owner"], info.get("name", "")
    segs = owner.split(".")
    if kind == "N":
        return set(), set()  # text of a string literal that documents no element: must not show up anywhere
    if kind == "M":
        return {"module"}, {""}
    if kind == "C":
        return {"class", "enum"}, {segs[-1]}
    if kind == "A":
        return {"attr", "class"}, {name, segs[-1]}
    # F, P, R, X: the function - or the class when the owner is a constructor / a class-level example
    if segs[-1] == "__init__":
        return {"class", "fun"}, {segs[-2], "__init__"}
    return {"fun", "attr", "class", "enum"}, {segs[-1]}


def attachment_violations(pkg: dict, res: dict, nc: bool = False, matched_style: bool = False) -> tuple[list[dict], dict]:
    table = (pkg.get("meta") or {}).get("tokens") or {}
    viols: list[dict] = []
    stats = {"token_occurrences": 0, "tokens_seen": 0, "comments": 0}
    if not table or res.get("outcome") != "completed":
        return viols, stats
    seen: set[str] = set()
    all_attr_decls: set[tuple[str, str, str]] = set()
    companions = _companions(table)
    # griffe's Sphinx parser folds the continuation lines of a `:param:` field into one line (reST semantics), and the plain
    # text parser has no notion of parameters: multi-line parameter descriptions are only judged for NumPy and Google style
    multiline_params = pkg.get("doc_style") in ("NUMPYDOC", "GOOGLE")
    probes = (pkg.get("meta") or {}).get("probes") or {}
    aliases = ((pkg.get("meta") or {}).get("probes") or {}).get("aliases") or {}
    for rel, ent in sorted(engine.output_files(res["out_tree"]).items()):
        if not rel.endswith(".sdsstub"):
            continue
        text = ent["data"].decode("utf-8", "replace")
        comments, outside = parse_comments(text)
        stats["comments"] += len(comments)
        all_attr_decls.update((rel, cls, name) for cls, name in parse_comments.last_attr_decls)  # type: ignore[attr-defined]
        for lineno, ln in outside:
            for tok in _TOKEN.findall(ln):
                if tok in table:
                    viols.append({"class": "docstring-text-outside-comment", "detail": {"path": rel, "line": lineno, "token": tok, "text": ln[:200],
                                                                                      "fingerprint": {"gkey": "outside"}}})
        for c in comments:
            if matched_style:
                # completeness inside one comment: where the description of a function/class arrived, the parameter, result
                # and example texts of the same docstring must have arrived too (nothing of a docstring is dropped on the way)
                for tok in set(_TOKEN.findall(c["text"])):
                    if tok in companions and f"Summary {tok}" in c["text"]:
                        missing = [t for t in companions[tok] if t not in c["text"]]
                        if missing:
                            viols.append({"class": "docstring-part-missing", "detail": {
                                "path": rel, "line": c["line"], "token": tok, "missing": [dict(table[t], token=t) for t in missing[:4]],
                                "comment": c["text"][:500], "fingerprint": {"gkey": "missing-" + table[missing[0]]["kind"]}}})
            for tok in _TOKEN.findall(c["text"]):
                info = table.get(tok)
                if info is None:
                    continue
                stats["token_occurrences"] += 1
                seen.add(tok)
                kinds, names = _home_names(info, aliases)
                d = c["decl"]
                ok = d is not None and d["kind"] in kinds and (d["python_name"] in names or d["name"] in names)
                if ok and info["kind"] in ("F", "P", "R", "X", "A") and c.get("enclosing") is not None:
                    allowed = _allowed_classes(info, probes, aliases)
                    if allowed and c["enclosing"] not in allowed and not (d and d["kind"] == "class" and d["python_name"] in allowed):
                        viols.append({"class": "docstring-in-wrong-class", "detail": {
                            "path": rel, "line": c["line"], "token": tok, "token_belongs_to": info, "found_in_class": c["enclosing"], "allowed_classes": sorted(allowed),
                            "found_on": d, "fingerprint": {"gkey": f"wrong-class-{info['kind']}"}}})
                if ok and matched_style and info.get("lines") and info["kind"] in ("C", "F") and f"Summary {tok}" in c["text"]:
                    # "line for line": the whole description, blank lines included, follows its first line in order
                    got = [re.sub(r"^\s*\* ?", "", cl).rstrip() for cl in c["text"].split("\n")[1:]]
                    want = [w.rstrip() for w in info["lines"]]
                    try:
                        start = next(i for i, g in enumerate(got) if g == want[0])
                    except StopIteration:
                        start = None
                    if start is None or got[start : start + len(want)] != want:
                        viols.append({"class": "description-not-line-for-line", "detail": {
                            "path": rel, "line": c["line"], "token": tok, "expected_lines": want, "comment": c["text"][:500],
                            "fingerprint": {"gkey": "lines"}}})
                if ok and matched_style and multiline_params and info["kind"] == "P" and len(info.get("lines") or []) > 1:
                    got = [re.sub(r"^\s*\* ?", "", cl).rstrip() for cl in c["text"].split("\n")[1:]]
                    want = [w.strip() for w in info["lines"]]
                    idx = next((i for i, g in enumerate(got) if g.endswith(want[0]) and "@param" in g), None)
                    if idx is None or [g.strip() for g in got[idx + 1 : idx + len(want)]] != want[1:]:
                        viols.append({"class": "description-not-line-for-line", "detail": {
                            "path": rel, "line": c["line"], "token": tok, "expected_lines": want, "comment": c["text"][:600],
                            "fingerprint": {"gkey": "param-lines"}}})
                if ok and matched_style and info["kind"] == "X" and info.get("code"):
                    # the code of an example line is kept as written (only the prompt is turned into a comment marker)
                    for cl in c["text"].split("\n"):
                        if tok in cl and re.sub(r"^\s*\*\s*", "", cl).rstrip() != "// " + info["code"]:
                            viols.append({"class": "example-line-not-intact", "detail": {
                                "path": rel, "line": c["line"], "token": tok, "expected": "// " + info["code"], "comment_line": cl[:200],
                                "fingerprint": {"gkey": "example"}}})
                if ok and info["kind"] == "P" and not nc:
                    # the line that carries a parameter's description names that parameter (checked verbatim without -nc)
                    for cl in c["text"].split("\n"):
                        if tok in cl:
                            m = re.search(r"@param\s+(\S+)", cl)
                            if m and m.group(1) != info.get("name"):
                                viols.append({"class": "parameter-description-on-wrong-parameter", "detail": {
                                    "path": rel, "line": c["line"], "token": tok, "token_belongs_to": info, "found_under": m.group(1),
                                    "comment_line": cl[:200], "fingerprint": {"gkey": "wrong-param"}}})
                if ok and info["kind"] == "R" and info.get("name") and not nc:
                    # a result that the docstring names keeps that name on the line that carries its description
                    for cl in c["text"].split("\n"):
                        if tok in cl:
                            m = re.search(r"@result\s+(\S+)", cl)
                            if m and m.group(1) != info.get("name"):
                                viols.append({"class": "result-description-on-wrong-result", "detail": {
                                    "path": rel, "line": c["line"], "token": tok, "token_belongs_to": info, "found_under": m.group(1),
                                    "comment_line": cl[:200], "fingerprint": {"gkey": "wrong-result"}}})
                if not ok:
                    viols.append({"class": "docstring-on-wrong-element", "detail": {
                        "path": rel, "line": c["line"], "token": tok, "token_belongs_to": info, "found_on": d,
                        "comment": c["text"][:400], "fingerprint": {"gkey": f"wrong-element-{info['kind']}"}}})
    stats["tokens_seen"] = len(seen)
    if matched_style and pkg.get("doc_style") in ("NUMPYDOC", "GOOGLE"):
        # a documented attribute that is declared in the stubs carries its description
        classes = sorted(probes.get("classes") or [], key=len, reverse=True)
        for tok, info in table.items():
            if info["kind"] != "A" or tok in seen:
                continue
            cls_names = {info["owner"].split(".")[-1]} | set(aliases.get(info["owner"], []))
            hit = next(((rel, c, n) for rel, c, n in sorted(all_attr_decls) if c in cls_names and n == info["name"]), None)
            same_short = [c for c in classes if c.split(".")[-1] in cls_names]
            if hit is not None and len(same_short) <= 1:  # homonymous classes: cannot tell which one the declaration belongs to
                viols.append({"class": "attribute-description-missing", "detail": {
                    "path": hit[0], "token": tok, "token_belongs_to": info, "declared_in_class": hit[1],
                    "fingerprint": {"gkey": "missing-A"}}})
    return viols, stats


def _companions(table: dict) -> dict[str, list[str]]:
    """summary token of a function / class -> tokens of its parameter, result and example texts (same docstring)."""
    by_owner: dict[str, list[str]] = {}
    for tok, info in table.items():
        if info["kind"] in ("P", "R", "X"):
            by_owner.setdefault(info["owner"], []).append(tok)
    out: dict[str, list[str]] = {}
    for tok, info in table.items():
        if info["kind"] == "F":
            out[tok] = sorted(by_owner.get(info["owner"], []))
        elif info["kind"] == "C":
            out[tok] = sorted(by_owner.get(info["owner"] + ".__init__", []) + by_owner.get(info["owner"], []))
    return out


def make_cases(seed: int, tier: str, n_cases: int | None = None) -> list[dict]:
    n = n_cases or (32 if tier == "quick" else 500)
    cases = []
    styles = ["NUMPYDOC", "GOOGLE", "REST", "PLAINTEXT"]
    for idx in range(n):
        cs = H(seed, PROP, tier, idx)
        r = rng(cs, "opts")
        style = styles[idx % 4] if idx % 8 != 7 else r.choice(styles[:3])
        if idx % 8 == 5:
            pkg = workload.corpus_package(r.choice(["docstring_parser_package", "various_modules_package"]), runner.repo_dir())
        else:
            feats = sorted(set(r.sample(workload.FEATURES, r.randint(2, 7))) | {"DOCS"} | set(r.sample(["HOMONYMS", "PRIVATE_BASE_2SUBS", "NESTED_CLASS", "PROPERTY", "STATIC_CLASSMETHOD"], 2)))
            pkg = workload.generate_package(H(cs, "pkg"), feats, doc_style=style if idx % 8 != 6 else r.choice(styles))
        options = workload.pick_options(r, pkg)
        options["docstyle"] = style
        sigma = engine.sample_sigma(rng(cs, "sched"), ["hashseed", "enum", "obj"])
        c_step = {"sigma": sigma, "job_extra": {"kind": "C", "c_kind": "docstring", "options": options, "history_seed": H(cs, "hist") % (2**31),
                                                "n_histories": 16 if tier == "quick" else 40, "history_len": 200 if tier == "quick" else 300}}
        cases.append({"index": idx, "case_seed": cs, "verif_seed": seed, "pkg": pkg, "options": options,
                      "histories": [[c_step], [{"sigma": sigma}]]})
    return cases


def run_case(case: dict, parallel: int = 1) -> dict:
    tag = f"{PROP}-{case['index']}"
    results = engine.run_histories(tag, case["pkg"], case["options"], case["histories"], parallel=parallel, timeout=400.0)
    verdict: dict = {"violations": [], "index": case["index"], "stats": {}}
    comp = results[0][0]
    e_run = results[1][0] if len(results) > 1 else None
    if comp["outcome"] in ("harness_error", "timeout"):
        verdict["harness_error"] = f"component run: {comp['outcome']} {comp.get('error', '')} {comp.get('stderr_tail', '')}"[:1500]
        return verdict
    if comp["outcome"] != "completed":
        verdict["skipped"] = f"analysis did not complete ({comp['outcome']}): left to C01"
        return verdict
    for m in comp.get("mismatches", []):
        verdict["violations"].append({"class": "cached-answer-differs-from-cold-answer", "history": 0,
                                      "detail": dict(m, fingerprint={"gkey": m["kind"] + ":" + m["query"].split("(")[0]})})
    st = dict(comp.get("stats") or {})
    if e_run is not None and e_run["outcome"] == "completed":
        vs, ast = attachment_violations(case["pkg"], e_run, bool(case["options"].get("nc")),
                                        matched_style=case["options"].get("docstyle") == case["pkg"].get("doc_style"))
        for v in vs:
            v["history"] = 1
        verdict["violations"] += vs
        st.update(ast)
        st["e_runs"] = 1
        st["signature"] = engine.io_signature(e_run) + ("n" if engine.nontrivial(e_run) else "t")
    verdict["stats"] = st
    return verdict


def essential_histories(case: dict, violation: dict) -> dict | None:
    if violation.get("history", 0) == 0:
        case["histories"] = case["histories"][:1]
    return case


ASSUMPTIONS = [
    "scoped claim: only the order/attachment clause is decided (coherence of the one-entry docstring cache under arbitrary query histories, and attachment of unique tokens end to end); "
    "'the generated documentation is the same whichever of the NumPy, Google or reST styles the source uses' and 'line for line' for arbitrary texts are pure functions of (text, style) and are not decided by this technique",
    "the reference answer is that of a brand-new parser instance asked one query; the immutable griffe tree is shared between instances through a memo on the loader, the parser's own cache is always cold",
    "queries whose reference raises are excluded from histories (the real pipeline stops at the first exception)",
    "token attachment is judged by declaration kind and Python short name of the declaration that follows the comment",
]


def coverage(cases: list[dict], verdicts: list[dict], tier: str, wall: float) -> dict:
    tot = {"ops": 0, "histories": 0, "recorded_queries": 0, "distinct_queries": 0, "token_occurrences": 0, "tokens_seen": 0, "comments": 0, "e_runs": 0,
           "reference_raised_excluded": 0, "homonym_groups": 0, "undocumented_queries": 0, "documented_queries": 0}
    strategies: dict = {}
    by_method: dict = {}
    styles: dict = {}
    sigs: set = set()
    qsets: set = set()
    memo = 0
    for c, v in zip(cases, verdicts):
        st = v.get("stats") or {}
        for k in tot:
            tot[k] += st.get(k, 0) or 0
        for k, n in (st.get("strategies") or {}).items():
            strategies[k] = strategies.get(k, 0) + n
        for k, n in (st.get("by_method") or {}).items():
            by_method[k] = by_method.get(k, 0) + n
        if st.get("ops"):
            styles[c["options"]["docstyle"]] = styles.get(c["options"]["docstyle"], 0) + 1
            if st.get("distinct_queries", 0) >= 10 and st.get("documented_queries", 0) >= 2:
                qsets.add((c["case_seed"], st.get("distinct_queries")))
        if st.get("signature"):
            sigs.add(st["signature"])
        memo += 1 if st.get("load_memo_installed") else 0
    samples = [{"case_seed": c["case_seed"], "package": c["pkg"].get("name"), "docstyle": c["options"]["docstyle"], "package_doc_style": c["pkg"].get("doc_style"),
                "history_seed": c["histories"][0][0]["job_extra"]["history_seed"], "n_histories": c["histories"][0][0]["job_extra"]["n_histories"],
                "stats": {k: (v.get("stats") or {}).get(k) for k in ("recorded_queries", "distinct_queries", "ops", "strategies", "homonym_groups")}}
               for c, v in list(zip(cases, verdicts))[:3]]
    return {
        "evaluations": tot["ops"] + tot["e_runs"],
        "distinct_nontrivial": len(qsets),
        "rule": "evaluations = docstring queries answered inside seeded histories (layer C) + whole-tool runs whose stubs were token-checked (layer E); "
                "distinct_nontrivial = number of distinct (package, style) query sets with >= 10 distinct real queries of which >= 2 documented, each explored by all history strategies",
        "samples": samples,
        "query_ops": tot["ops"],
        "histories": tot["histories"],
        "history_strategies": strategies,
        "real_queries_recorded": tot["recorded_queries"],
        "distinct_queries": tot["distinct_queries"],
        "queries_by_method": by_method,
        "documented_queries": tot["documented_queries"],
        "undocumented_queries": tot["undocumented_queries"],
        "homonym_groups": tot["homonym_groups"],
        "references_raised_excluded": tot["reference_raised_excluded"],
        "cases_by_style": styles,
        "whole_tool_runs_token_checked": tot["e_runs"],
        "token_occurrences_checked": tot["token_occurrences"],
        "distinct_tokens_seen_in_stubs": tot["tokens_seen"],
        "doc_comments_parsed": tot["comments"],
        "cases_with_loader_memo": memo,
        "fault_kinds_fired": {},
        "fault_note": "no I/O faults: the state under test is the in-memory docstring cache; its 'faults' are adversarial query orders",
        "ops_per_hour": int(tot["ops"] / wall * 3600) if wall > 0 else 0,
    }
