"""C01 - every analysable package is processed to completion under every option set (scoped:
completion / termination / error discipline of whole runs under environment schedules, option
combinations, obstructed output directories and injected I/O faults; DESIGN §5.1).
"""
from __future__ import annotations

import json
import re

from .. import engine, probes, runner, workload
from ..seeds import H, rng
from . import c16 as _c16

PROP = "C01"
NEEDS_FAULT = False


FAULT_COMBOS = [
    (op, kind, sticky)
    for op in engine.FAULT_OPS
    for kind in _c16.ERROR_KINDS[op]
    for sticky in (False, True)
    if not (sticky and (kind.endswith("_short") or kind.startswith("interrupt")))
]


def _combo(k: int, pkg: dict) -> dict:
    combos = workload.all_option_combos()
    o = dict(combos[k % len(combos)])
    if pkg.get("needs_tr"):
        o["tr"] = True
    return o


def make_cases(seed: int, tier: str, n_cases: int | None = None) -> list[dict]:
    n = n_cases or (32 if tier == "quick" else 600)
    n_sched = 3 if tier == "quick" else 4
    cases = []
    probe_names = sorted(probes.PROBES)
    for idx in range(n):
        cs = H(seed, PROP, tier, idx)
        r = rng(cs, "opts")
        if idx % 4 == 3:
            # probe packages: input forms that used to abort the tool (fixed list, see vsim/probes.py)
            # every run of the check covers the whole list: the probe cases walk through it in slices; later passes
            # (thorough tier) walk through a seeded shuffle of it, so that the probes meet other neighbours
            n_probe_cases = max(1, n // 4)
            k = max(10, -(-len(probe_names) // n_probe_cases))
            start = (idx // 4) * k
            order = list(probe_names)
            if start // len(order):
                rng(seed, PROP, "probe-pass", start // len(order)).shuffle(order)
            names = [order[(start + j) % len(order)] for j in range(k)]
            pkg = probes.probe_package(sorted(set(names)))
        elif idx % 16 == 6:
            # layouts without any ordinary module that is analysed: only __init__ files (with code), or ordinary modules in
            # test directories only (documented rejection without -tr, completion with it)
            if (idx // 16) % 2 == 0:
                files = {"onlyinit/__init__.py": "def top_level(a: int = 1) -> int:\n    ...\n", "onlyinit/sub/__init__.py": "class InInit:\n    x: int = 0\n"}
                pkg = {"files": files, "src_rel": "onlyinit", "top": "onlyinit", "features": ["INIT_ONLY"], "doc_style": "PLAINTEXT", "seed": 0,
                       "meta": {"tokens": {}, "probes": {}}, "name": "layout-onlyinit"}
            else:
                files = {"withtests/__init__.py": "", "withtests/tests/__init__.py": "", "withtests/tests/test_it.py": "def check(a: int) -> int:\n    ...\n",
                         "withtests/docs/__init__.py": "", "withtests/docs/conf.py": "project = 'x'\n"}
                pkg = {"files": files, "src_rel": "withtests", "top": "withtests", "features": ["TESTS_ONLY"], "doc_style": "PLAINTEXT", "seed": 0,
                       "meta": {"tokens": {}, "probes": {}}, "name": "layout-withtests"}
        else:
            pkg = engine.case_package(cs, idx, corpus_every=16 if tier == "quick" else 25)
        options = workload.pick_options(r, pkg)
        hist = [[{"sigma": {}}]]
        for j in range(n_sched):
            rs = rng(cs, "sched", j)
            dims = rs.sample(runner.SIGMA_DIMS, rs.randint(2, len(runner.SIGMA_DIMS)))
            o = _combo(idx * n_sched + j + seed, pkg)
            if rs.random() < 0.35:
                o["verbose"] = True  # -v: info messages (paths, ids) are formatted and written to stderr
            sigma = engine.sample_sigma(rs, sorted(dims))
            if j == 0:
                # one schedule run of every case lists every directory in the exact reverse of the reference run's order
                # (with the reference's test-run flag, so that the sets of analysed modules are comparable)
                sigma["enum"] = {"mode": "reversed"}
                o["tr"] = bool(options.get("tr"))
            hist.append([{"sigma": sigma, "options": o}])
        cases.append({"index": idx, "case_seed": cs, "verif_seed": seed, "pkg": pkg, "options": options, "histories": hist,
                      "params": {"tier": tier, "n_fault": 3 if tier == "quick" else 4, "n_sched": n_sched}, "planned": False})
    return cases


def plan_fault_histories(case: dict, ref: dict) -> list[list[dict]]:
    r = rng(case["case_seed"], "faultplan")
    strata = engine.fault_strata(ref.get("event_log", []))
    hs: list[list[dict]] = []
    if not strata:
        return hs
    n_fault = case["params"].get("n_fault", 2)
    base = (case["index"] if isinstance(case["index"], int) else 0) * n_fault + (case.get("verif_seed") or 0)
    for j in range(n_fault):
        faults = []
        # the first fault of a plan walks round-robin through every (life-cycle step, error kind, transient/persistent)
        # combination, so that a batch of a few dozen cases covers all of them; its place in the run is still seeded
        e = None
        for skip in range(len(FAULT_COMBOS)):
            # combinations whose life-cycle step does not occur in this run (e.g. rename on a tool that never renames) are passed over
            op, kind, sticky = FAULT_COMBOS[(base + j + skip * 7) % len(FAULT_COMBOS)]
            e = engine.pick_fault_event_for_op(r, strata, op)
            if e is not None:
                break
        if e is not None:
            f = {"sel": engine.selector_for(e), "kind": kind}
            if sticky:
                f["sticky"] = True  # the condition persists (full disk, read-only directory, descriptor table full)
            faults.append(f)
        if r.random() < 0.25:
            e = engine.pick_fault_event(r, strata)
            if e is not None:
                faults.append({"sel": engine.selector_for(e), "kind": r.choice(_c16.ERROR_KINDS[e["op"]])})
        if faults:
            hs.append([{"sigma": {}, "faults": faults, "role": "fault"}])
    # the output directory is already populated by an earlier complete run (other working directory / spelling)
    other = engine.sample_sigma(r, ["cwd", "out_spelling", "hashseed"])
    if other.get("out_spelling") in ("nested", "nested_rel"):
        other["out_spelling"] = "dot"
    hs.append([{"sigma": {}, "role": "first-of-rerun"}, {"sigma": other, "role": "rerun"}])
    # ... or by an earlier run that failed or was killed half way
    e = engine.pick_fault_event(r, strata)
    if e is not None:
        kind = r.choice(_c16.ERROR_KINDS[e["op"]] + ["crash", "crash"])
        hs.append([{"sigma": {}, "faults": [{"sel": engine.selector_for(e), "kind": kind}], "role": "first-of-rerun"},
                   {"sigma": {}, "role": "rerun"}])
    # ... or holds LONGER, different files at the paths this run writes (an older, larger version of the package):
    # a run that reports success must leave exactly the reference output, no stale tail
    files_ = sorted(k for k, v in ref["out_tree"].items() if "sha" in v)
    if files_:
        stale = {}
        for k in r.sample(files_, min(len(files_), 3)):
            stale[k] = ref["out_tree"][k]["data"].decode("utf-8", "replace") + "\n// stale tail of an older, longer version\n" * r.randint(2, 6)
        hs.append([{"sigma": {}, "prepop_files": stale, "role": "stale-leftover"}])
    # obstructed output directory: a regular file where a directory is needed / a directory where the API file goes
    dirs = sorted(k for k, v in ref["out_tree"].items() if v.get("dir"))
    files = sorted(k for k, v in ref["out_tree"].items() if "sha" in v)
    if dirs and r.random() < 0.7:
        top_dirs = [d for d in dirs if "/" not in d]
        pick = r.choice(top_dirs) if top_dirs and r.random() < 0.4 else r.choice(dirs)
        hs.append([{"sigma": {}, "prepop_files": {pick: "obstruction\n"}, "role": "obstructed"}])
    elif files:
        hs.append([{"sigma": {}, "prepop_dirs": [r.choice(files)], "role": "obstructed"}])
    return hs


def _fp_msg(msg: str) -> str:
    return re.sub(r"[0-9]+", "N", re.sub(r"'[^']*'", "'..'", msg or ""))[:80]


def judge_run(case: dict, hi: int, res: dict, role: str, ref: dict | None) -> list[dict]:
    viols = []
    out = res["outcome"]

    def v(cls: str, **detail: object) -> None:
        viols.append({"class": cls, "history": hi, "detail": dict(detail, sigma=res.get("sigma"), faults=res.get("faults"), role=role, argv=res.get("argv"))})

    if out == "livelock":
        v("livelock", exception=res.get("exception"))
        return viols
    if out == "timeout":
        v("non-termination", note="run exceeded the watchdog; re-run alone by the minimiser/replay before it is reported")
        return viols
    if out == "usage_error" and role in ("reference", "schedule", "rerun", "stale-leftover"):
        # the harness always passes valid arguments: a run that ends in SystemExit(non-zero) without a fault neither completed
        # nor rejected its input with the documented error
        v("exit-without-result", exit_code=res.get("exit_code"), fingerprint={"gkey": "usage-exit"})
        return viols
    if out in ("harness_error", "not_loadable", "usage_error"):
        return viols
    exc = res.get("exception") or {}
    if role in ("rerun", "stale-leftover") and out == "completed" and ref is not None:
        d = engine.first_difference(ref["out_tree"], res["out_tree"])
        if d is not None:
            v("rerun-output-differs", difference=d, fingerprint={"gkey": "rerun-differs"})
        return viols
    if role in ("reference", "schedule", "rerun", "stale-leftover"):
        if out == "failed":
            v("internal-error" if exc.get("errno") is None else "io-error-without-fault", exception=exc,
              fingerprint={"gkey": f"{exc.get('type')}:{(exc.get('innermost_tool') or ['', ''])[1]}", "message": exc.get("message"), "msg": _fp_msg(exc.get("message", ""))})
        elif out == "died":
            v("died-without-fault")
        elif out == "completed":
            files = engine.output_files(res["out_tree"])
            apis = [k for k in files if k.endswith("__api.json")]
            if len(apis) != 1:
                v("api-file-missing", found=apis)
            else:
                try:
                    json.loads(files[apis[0]]["data"].decode("utf-8"))
                except ValueError as e:
                    v("api-file-not-json", path=apis[0], error=str(e)[:200])
            # the set of analysed modules depends on the package and the test-run flag only: a run that "completes" with
            # fewer (or no) modules than the reference run of the same package did not process the package
            if ref is not None and len(apis) == 1 and role == "schedule":
                try:
                    mine = sorted(m["id"] for m in json.loads(files[apis[0]]["data"].decode("utf-8")).get("modules", []))
                    ref_files = engine.output_files(ref["out_tree"])
                    ref_api = [k for k in ref_files if k.endswith("__api.json")]
                    theirs = sorted(m["id"] for m in json.loads(ref_files[ref_api[0]]["data"].decode("utf-8")).get("modules", [])) if ref_api else None
                    same_tr = bool((case["histories"][hi][-1].get("options") or {}).get("tr")) == bool(case["options"].get("tr"))
                    if theirs is not None and same_tr and mine != theirs:
                        v("completed-with-different-module-set", modules=len(mine), reference_modules=len(theirs),
                          missing=[m for m in theirs if m not in mine][:5], extra=[m for m in mine if m not in theirs][:5], fingerprint={"gkey": "module-set"})
                except (ValueError, KeyError, IndexError):
                    pass
            out_rel = res["out_dir_rel"] + "/"
            for e in res.get("event_log", []):
                p = str(e.get("path", ""))
                if e.get("op") == "open" and p.endswith(".sdsstub") and p.startswith(out_rel) and p[len(out_rel) :] not in files:
                    v("written-stub-missing", path=p)
                    break
        return viols
    # fault / obstructed runs
    if out == "died":
        if not any("crash" in (f.get("kind") or "") for f in res.get("faults") or []):
            v("died-without-crash-fault")
        return viols
    if out == "completed":
        if ref is not None:
            d = engine.first_difference(ref["out_tree"], res["out_tree"])
            if d is not None and role == "fault":
                v("success-reported-but-output-differs", difference=d, fired=res.get("fired"),
                  fingerprint={"gkey": "silent-loss"})
            elif d is not None and role == "obstructed":
                v("success-reported-over-obstruction-but-output-differs", difference=d, fingerprint={"gkey": "silent-loss-obstructed"})
        return viols
    if out == "rejected":
        v("rejected-under-fault", exception=exc)
        return viols
    # failed: the failure must be the injected error (fault role) or a plain OSError from the real file system (obstructed)
    if role == "fault":
        chain = exc.get("chain") or []
        wrapped = any(c.get("injected") and c.get("via") in ("self", "cause") for c in chain)
        if not exc.get("is_injected") and not wrapped:
            v("secondary-error-after-fault", exception=exc, fired=res.get("fired"),
              fingerprint={"gkey": f"{exc.get('type')}:{(exc.get('innermost_tool') or ['', ''])[1]}", "msg": _fp_msg(exc.get("message", ""))})
    else:
        if exc.get("errno") is None or exc.get("innermost_is_tool"):
            v("internal-error-on-obstructed-output", exception=exc,
              fingerprint={"gkey": f"{exc.get('type')}:{(exc.get('innermost_tool') or ['', ''])[1]}", "msg": _fp_msg(exc.get("message", ""))})
    return viols


def run_case(case: dict, parallel: int = 1) -> dict:
    tag = f"{PROP}-{case['index']}"
    verdict: dict = {"violations": [], "index": case["index"], "stats": {}}
    timeout = 90.0 if case["params"].get("tier") == "quick" else 240.0
    n_sched = case["params"].get("n_sched", 3)
    first_n = 1 + n_sched if not case.get("planned") else len(case["histories"])
    first = engine.run_histories(tag + "a", case["pkg"], case["options"], case["histories"][:first_n], parallel=parallel, timeout=timeout)
    ref = first[0][0]
    if ref["outcome"] == "harness_error":
        verdict["harness_error"] = f"reference run: {ref.get('error', '')} {ref.get('stderr_tail', '')}"[:1500]
        return verdict
    results = list(first)
    if not case.get("planned"):
        extra = plan_fault_histories(case, ref) if ref["outcome"] == "completed" else []
        case["histories"] = case["histories"][:first_n] + extra
        case["planned"] = True
        if extra:
            results += engine.run_histories(tag + "b", case["pkg"], case["options"], extra, parallel=parallel, timeout=timeout)
    fired: dict = {}
    configured: dict = {}
    outcomes: dict = {}
    roles: dict = {}
    sigs = []
    combos = set()
    for hi, hres in enumerate(results):
        res = hres[-1]
        spec = case["histories"][hi][-1]
        role = spec.get("role") or ("reference" if hi == 0 else "schedule")
        roles[role] = roles.get(role, 0) + 1
        outcomes[f"{role}:{res['outcome']}"] = outcomes.get(f"{role}:{res['outcome']}", 0) + 1
        for f in spec.get("faults") or []:
            configured[f["kind"]] = configured.get(f["kind"], 0) + 1
        for f in res.get("fired") or []:
            fired[f["kind"]] = fired.get(f["kind"], 0) + 1
        if res.get("sticky_hits"):
            fired["sticky_repeats"] = fired.get("sticky_repeats", 0) + res["sticky_hits"]
        if res["outcome"] == "harness_error":
            verdict.setdefault("harness_notes", []).append(f"history {hi}: {res.get('error', '')[:300]}")
            continue
        verdict["violations"] += judge_run(case, hi, res, role, ref if ref["outcome"] == "completed" else None)
        if res["outcome"] == "completed":
            sigs.append(engine.io_signature(res) + ("n" if engine.nontrivial(res) else "t"))
        o = spec.get("options") or case["options"]
        combos.add(json.dumps({k: o.get(k) for k in workload.OPTION_SPACE}, sort_keys=True))
    verdict["stats"] = {"runs": len(results), "fired": fired, "configured": configured, "outcomes": outcomes, "roles": roles, "signatures": sigs,
                        "combos": sorted(combos), "livelock_probe": ref.get("livelock_probe"), "events": sum(h[-1].get("events", 0) for h in results)}
    return verdict


def essential_histories(case: dict, violation: dict) -> dict | None:
    hi = violation.get("history", 0)
    if hi == 0:
        case["histories"] = [case["histories"][0]]
    else:
        case["histories"] = [case["histories"][0], case["histories"][hi]]
    case["planned"] = True
    case["params"] = dict(case.get("params") or {}, n_sched=len(case["histories"]) - 1)
    return case


ASSUMPTIONS = [
    "scoped claim: the 'for all programs' part of C01 is only sampled by the workload (generated packages, the repo's corpus, the probe packages of vsim/probes.py); a program fuzzer would be the tool to enumerate further crash sites",
    "read-side faults (unreadable / vanishing source files) make mypy refuse the package and are outside the property ('any package the type checker can load'); only write-side faults are injected",
    "an injected error is recognised by object identity (or as the explicit __cause__ of the raised exception), not by errno",
    "a run on an obstructed output directory (file where a directory is needed) may fail with the file system's own OSError; only a non-OSError or an error raised by the tool's own code counts as internal error there",
    "non-termination is decided by a watchdog (90 s quick / 240 s thorough per run, normal run time 2-4 s) plus a deterministic livelock probe at the docstring parser's load-retry loop",
]


def coverage(cases: list[dict], verdicts: list[dict], tier: str, wall: float) -> dict:
    tot = {"runs": 0, "events": 0}
    fired: dict = {}
    configured: dict = {}
    outcomes: dict = {}
    roles: dict = {}
    sigs: set = set()
    nt: set = set()
    combos: set = set()
    probe = {}
    for v in verdicts:
        st = v.get("stats") or {}
        tot["runs"] += st.get("runs", 0)
        tot["events"] += st.get("events", 0)
        for name, acc in (("fired", fired), ("configured", configured), ("outcomes", outcomes), ("roles", roles)):
            for k, n in (st.get(name) or {}).items():
                acc[k] = acc.get(k, 0) + n
        for s in st.get("signatures", []):
            sigs.add(s[:-1])
            if s.endswith("n"):
                nt.add(s[:-1])
        combos.update(st.get("combos") or [])
        lp = st.get("livelock_probe")
        if lp:
            probe[lp] = probe.get(lp, 0) + 1
    samples = [{"case_seed": c["case_seed"], "package": c["pkg"].get("name"), "features": c["pkg"].get("features"),
                "histories": [{"role": h[-1].get("role", "reference/schedule"), "sigma": h[-1].get("sigma"), "options": h[-1].get("options"), "faults": h[-1].get("faults"),
                               "prepop": h[-1].get("prepop_files") or h[-1].get("prepop_dirs")} for h in c["histories"]][:6]} for c in cases[:2]]
    return {
        "evaluations": tot["runs"],
        "distinct_nontrivial": len(nt),
        "rule": "one evaluation = one whole-tool run (reference, sampled schedule x option combination, injected-fault run or obstructed-output run); distinct = distinct I/O-trace signatures of completed runs "
                "(sequence of (op, relpath) mkdir/open events + hashseed class); non-trivial = the run wrote >= 2 stub files",
        "samples": samples,
        "outcomes_by_role": outcomes,
        "runs_by_role": roles,
        "option_combinations_covered": len(combos),
        "option_combinations_total": 64,
        "fault_kinds_configured": configured,
        "fault_kinds_fired": fired,
        "livelock_probe": probe,
        "logical_steps_mutation_events": tot["events"],
        "distinct_io_signatures_all": len(sigs),
        "probe_packages": sorted(probes.PROBES),
        "runs_per_hour": int(tot["runs"] / wall * 3600) if wall > 0 else 0,
    }
