"""C08 - output is a deterministic function of package contents and options.

Differential oracle (no model of the correct output): Out(P,O,sigma) must be the same map
relpath -> bytes for the canonical schedule (executed twice) and for every sampled schedule.
"""
from __future__ import annotations

from .. import engine, runner, workload
from ..seeds import H, rng

PROP = "C08"

DIM_GROUPS_QUICK = [
    ["hashseed"],
    ["enum", "obj"],
    ["hashseed", "enum", "obj"],
    ["cwd", "src_spelling", "out_spelling"],
    ["cwd", "invocation", "src_spelling", "out_spelling", "env"],
    list(runner.SIGMA_DIMS),
]


def make_cases(seed: int, tier: str, n_cases: int | None = None) -> list[dict]:
    n = n_cases or (32 if tier == "quick" else 700)
    cases = []
    for idx in range(n):
        cs = H(seed, PROP, tier, idx)
        pkg = engine.case_package(cs, idx, corpus_every=16 if tier == "quick" else 25)
        if idx % 16 == 2:
            # the hand-written probe modules of vsim/probes.py (declaration forms the generator does not produce), half of the
            # list per case, so that two such cases - one quick run - put every probe under the schedule dimensions
            from .. import probes

            names = sorted(probes.PROBES)
            half = (idx // 16 + seed) % 2
            pkg = probes.probe_package(names[half::2])
            pkg["name"] = f"probes-half{half}"
        r = rng(cs, "opts")
        options = workload.pick_options(r, pkg)
        groups = list(DIM_GROUPS_QUICK)
        if tier != "quick":
            rr = rng(cs, "groups")
            groups += [sorted(rr.sample(runner.SIGMA_DIMS, rr.randint(1, 4))) for _ in range(2)]
        histories = [[{"sigma": {}}], [{"sigma": {}}]]
        for k, dims in enumerate(groups):
            histories.append([{"sigma": engine.sample_sigma(rng(cs, "sched", k), dims), "dims": dims}])
        # "between repeated runs" also means: repeated into the SAME output directory (the second run finds the first
        # run's files); the tree after the second run is compared with the reference like any other schedule
        rs2 = rng(cs, "rerun")
        histories.append([{"sigma": {}}, {"sigma": engine.sample_sigma(rs2, ["hashseed", "enum"]), "dims": ["rerun", "hashseed", "enum"]}])
        # ... and also: repeated in ONE process - the process has analysed the same paths before, when the files held
        # other contents (library use, long-running callers); what it produces now must be what a fresh process produces
        histories.append([{"sigma": {}, "prelude_edit": True, "dims": ["inproc_reanalysis"]}])
        # ... and library use: the function behind the command line, called with relative paths as they are spelled
        rl = rng(cs, "library")
        histories.append([{"sigma": {"cwd": rl.choice(["proj", "work", "S", "elsewhere"]), "src_spelling": rl.choice(["rel", "reltrail", "abs"]),
                                     "out_spelling": rl.choice(["rel", "reltrail", "abs"])}, "library_entry": True, "dims": ["library_entry", "cwd", "src_spelling", "out_spelling"]}])
        cases.append({"index": idx, "case_seed": cs, "verif_seed": seed, "pkg": pkg, "options": options, "histories": histories})
    return cases


def _brief_exc(res: dict) -> str:
    e = res.get("exception") or {}
    return f"{res.get('outcome')}:{e.get('type', '')}:{(e.get('innermost_tool') or ['', ''])[1]}"


def _collision_of(differing: list[str], ref_tree: dict) -> str:
    """If EVERY differing path is a path at which two stub texts collide for a known structural reason (see
    c10.classify_collision), name that reason; otherwise 'none'.  Used only to attribute known findings narrowly."""
    import json as _json

    from . import c10 as _c10

    api = None
    for k, ent in ref_tree.items():
        if k.endswith("__api.json") and "data" in ent:
            try:
                api = _json.loads(ent["data"].decode("utf-8"))
            except ValueError:
                api = None
    kinds = {_c10.classify_collision(p, api) for p in differing if p.endswith(".sdsstub")}
    if len(differing) > 0 and all(p.endswith(".sdsstub") for p in differing) and len(kinds) == 1 and "unclassified" not in kinds:
        return kinds.pop()
    return "none"


def judge(case: dict, results: list[list[dict]], normalisers: list | None = None) -> dict:
    """results[i][0] is the single step of history i; 0 and 1 are the canonical schedule twice."""
    ref, ref2 = results[0][0], results[1][0]
    verdict: dict = {"violations": [], "skipped": None, "stats": {}}
    if ref["outcome"] in ("harness_error", "timeout") or ref2["outcome"] in ("harness_error", "timeout"):
        verdict["harness_error"] = f"reference run: {ref['outcome']} {ref.get('error', '')} {ref.get('stderr_tail', '')}"[:1500]
        return verdict
    if ref["outcome"] not in ("completed", "rejected"):
        verdict["skipped"] = f"reference run not completed ({_brief_exc(ref)}): left to C01"
        return verdict
    ref_files = engine.output_files(ref["out_tree"])

    def compare(a: dict, b: dict, label: str, idx: int) -> None:
        if b["outcome"] in ("harness_error", "timeout"):
            verdict.setdefault("harness_notes", []).append(f"history {idx}: {b['outcome']} {b.get('error', '')[:300]}")
            return
        if b.get("env_unrepresentable"):
            verdict.setdefault("harness_notes", []).append(f"history {idx}: non-ASCII file names under an ASCII file-system encoding: not comparable")
            return
        if a["outcome"] != b["outcome"]:
            verdict["violations"].append(
                {
                    "class": "nonrepeatable" if label == "repeat" else "outcome-differs",
                    "history": idx,
                    "detail": {
                        "reference_outcome": a["outcome"],
                        "outcome": b["outcome"],
                        "exception": b.get("exception"),
                        "sigma": b.get("sigma"),
                        "key": _brief_exc(b),
                    },
                },
            )
            return
        d = engine.first_difference(a["out_tree"], b["out_tree"])
        if d is not None:
            differing = engine.all_differences(a["out_tree"], b["out_tree"])
            verdict["violations"].append(
                {
                    "class": "nonrepeatable" if label == "repeat" else "tree-differs",
                    "history": idx,
                    "detail": {"difference": d, "all_differing": differing[:20], "sigma": b.get("sigma"),
                               "fingerprint": {"collision": _collision_of(differing, a["out_tree"])}},
                },
            )

    compare(ref, ref2, "repeat", 1)
    for i in range(2, len(results)):
        compare(ref, results[i][-1], "schedule", i)
    if not ref["src_unchanged"]:
        verdict.setdefault("harness_notes", []).append("source tree changed during the reference run")
    steps = [s_ for h in results for s_ in h]
    verdict["stats"] = {
        "runs": len(steps),
        "signatures": [engine.io_signature(s) for s in steps if s["outcome"] == "completed"],
        "nontrivial": engine.nontrivial(ref) and len(ref_files) >= 3,
        "orders": [engine.stub_write_order(s) for s in steps if s["outcome"] == "completed"],
        "outcomes": [s["outcome"] for s in steps],
        "listings": sum(s.get("listings", 0) for s in steps),
        "hashed_modules": sum(s.get("hashed_modules", 0) for s in steps),
        "wall": sum(s.get("wall", 0) for s in steps),
        "events": sum(s.get("events", 0) for s in steps),
        "ref_stub_files": len([p for p in ref_files if p.endswith(".sdsstub")]),
    }
    return verdict


def run_case(case: dict, parallel: int = 1) -> dict:
    tag = f"{PROP}-{case['index']}"
    results = engine.run_histories(tag, case["pkg"], case["options"], case["histories"], parallel=parallel)
    v = judge(case, results)
    v["index"] = case["index"]
    return v


def essential_histories(case: dict, violation: dict) -> dict | None:
    i = violation.get("history")
    if i is None or i < 1:
        return None
    if violation["class"] == "nonrepeatable":
        case["histories"] = case["histories"][:2]
    else:
        case["histories"] = [case["histories"][0], case["histories"][0], case["histories"][i]]
    return case


ASSUMPTIONS = [
    "the package is held fixed: presence of __init__.py in ancestors of the source directory, installed distributions and the Python/mypy/griffe versions are part of the input, not of the schedule",
    "only files under the output directory are compared (not stdout, log records or a .mypy_cache directory)",
    "address-order effects inside mypy/griffe are outside every seam; each violation is re-executed from its replay file before it is reported",
    "sampling, not enumeration: 2^32 hash seeds x n! enumeration orders are sampled; the workload creates ties on purpose so that few schedules are informative",
]


def coverage(cases: list[dict], verdicts: list[dict], tier: str, wall: float) -> dict:
    sigs: set = set()
    nontrivial_sigs: set = set()
    orders: set = set()
    runs = 0
    outcomes: dict = {}
    events = 0
    listings = 0
    hashed = 0
    features: dict = {}
    dims_varied: dict = {}
    hashseeds: set = set()
    enum_seeds: set = set()
    probes = {"tie_reexports": 0, "homonyms": 0, "inherit_groups": 0, "foreign": 0}
    for c, v in zip(cases, verdicts):
        st = v.get("stats") or {}
        runs += st.get("runs", 0)
        for s in st.get("signatures", []):
            sigs.add(s)
            if st.get("nontrivial"):
                nontrivial_sigs.add(s)
        for o in st.get("orders", []):
            orders.add(tuple(o))
        for o in st.get("outcomes", []):
            outcomes[o] = outcomes.get(o, 0) + 1
        events += st.get("events", 0)
        listings += st.get("listings", 0)
        hashed += st.get("hashed_modules", 0)
        for f in c["pkg"].get("features", []):
            features[f] = features.get(f, 0) + 1
        for k in probes:
            if (c["pkg"].get("meta", {}).get("probes") or {}).get(k):
                probes[k] += 1
        for h in c["histories"]:
            sg = h[-1].get("sigma") or {}
            for d in sg:
                dims_varied[d] = dims_varied.get(d, 0) + 1
            if "hashseed" in sg:
                hashseeds.add(sg["hashseed"])
            if isinstance(sg.get("enum"), dict) and "seed" in sg["enum"]:
                enum_seeds.add(sg["enum"]["seed"])
    sample_case = cases[0]
    samples = [
        {
            "case_seed": c["case_seed"],
            "package": c["pkg"].get("name"),
            "features": c["pkg"].get("features"),
            "options": c["options"],
            "schedules": [h[0].get("sigma") for h in c["histories"]][:5],
        }
        for c in cases[:3]
    ]
    _ = sample_case
    return {
        "evaluations": runs,
        "distinct_nontrivial": len(nontrivial_sigs),
        "rule": "one evaluation = one whole-tool run in a fresh interpreter under one schedule vector; a case = canonical schedule twice + sampled schedules on one generated/corpus package; "
                "distinct = distinct I/O-trace signatures sha256(sequence of (op, relpath) mkdir/open events, hashseed mod 4); non-trivial = the case's reference run wrote >= 2 stub files and >= 3 output files",
        "samples": samples,
        "distinct_io_signatures_all": len(sigs),
        "distinct_stub_write_orders": len(orders),
        "outcomes": outcomes,
        "logical_steps_mutation_events": events,
        "directory_listings_permuted": listings,
        "module_objects_hash_seeded": hashed,
        "schedule_dims_varied": dims_varied,
        "distinct_hashseeds": len(hashseeds),
        "distinct_enumeration_seeds": len(enum_seeds),
        "workload_features": features,
        "tie_probe_cases": probes,
        "fault_kinds_fired": {},
        "fault_note": "C08 runs are fault-free by definition (Out is defined for completed fault-free runs); faults are injected by the C01/C10/C16 checks",
        "determinism_pairs_checked": len([v for v in verdicts if v.get("stats")]),
        "runs_per_hour": int(runs / wall * 3600) if wall > 0 else 0,
    }
