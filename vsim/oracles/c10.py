"""C10 - stub files are laid out by module path inside the output directory.

Observed at the file-system seam (every mkdir/open/write/close of a run, including runs that
later fail or die) and on the final tree; see DESIGN §5.3 for the four clauses.
"""
from __future__ import annotations

import json
import os
import re

from .. import engine, runner, workload
from ..seeds import H, rng
from . import c16 as _c16

PROP = "C10"

_DECL = re.compile(r"^(?:class|fun|enum)\s+`?([A-Za-z_][A-Za-z0-9_]*)`?")
_PYNAME = re.compile(r'^@PythonName\("([^"]*)"\)')


def parse_stub(text: str) -> dict:
    """Deliberately small recogniser of a stub file's header and top-level declarations."""
    lines = text.split("\n")
    i = 0
    if lines and lines[0].startswith("/**"):
        while i < len(lines) and not lines[i].startswith(" */"):
            i += 1
        i += 1
    while i < len(lines) and lines[i].strip() == "":
        i += 1
    python_module = None
    package = None
    if i < len(lines) and lines[i].startswith('@PythonModule("'):
        m = re.match(r'^@PythonModule\("([^"]*)"\)\s*$', lines[i])
        python_module = m.group(1) if m else None
        i += 1
    if i < len(lines) and lines[i].startswith("package "):
        package = lines[i][len("package ") :].strip()
        i += 1
    decls = []
    pending_pyname = None
    in_comment = False
    depth = 0  # brace depth: only declarations at depth 0 are top-level (the generator sometimes emits the `class`
    #            keyword of a NESTED class in column 0, so the column alone does not tell)
    for ln in lines[i:]:
        st = ln.strip()
        if in_comment:
            if st.startswith("*/"):
                in_comment = False
            continue
        if st.startswith("/**"):
            in_comment = not st.endswith("*/")
            continue
        if st.startswith("//"):
            continue
        if depth == 0:
            m = _PYNAME.match(ln)
            if m:
                pending_pyname = m.group(1)
            else:
                m = _DECL.match(ln)
                if m:
                    decls.append({"name": m.group(1), "python_name": pending_pyname or m.group(1)})
                    pending_pyname = None
                elif ln and not ln.startswith(("@", " ", ")", "}", "from ", "\t")):
                    pending_pyname = None
        if st.endswith("{"):
            depth += 1
        elif st == "}":
            depth = max(0, depth - 1)
    return {"python_module": python_module, "package": package, "module_path": python_module or package, "decls": decls}


def check_layout(rel: str, text: str, api: dict | None) -> str | None:
    """Clause 2 for one stub file; returns a reason when the path does not match the header."""
    info = parse_stub(text)
    if not info["module_path"]:
        return "no package declaration found in the header"
    mod_segs = [s.strip("`") for s in info["module_path"].split(".")]
    parts = rel.split("/")
    dir_segs, base = parts[:-1], parts[-1][: -len(".sdsstub")]
    if dir_segs != mod_segs:
        return f"directory {'/'.join(dir_segs)!r} does not spell the announced module path {info['module_path']!r}"
    if base == mod_segs[-1].lstrip("_"):
        return None  # module stub or placeholder stub
    if len(info["decls"]) == 1 and info["decls"][0]["python_name"].lstrip("_") == base:
        return None  # re-exported declaration
    if api is not None:
        mid = "/".join(mod_segs)
        for m in api.get("modules", []):
            if m.get("id") == mid and m.get("name") == "__init__":
                for qi in m.get("qualified_imports", []):
                    alias = qi.get("alias")
                    last = qi.get("qualified_name", "").split(".")[-1]
                    if (alias or last).lstrip("_") == base:
                        return None  # module re-exported by this package under that name/alias
    return f"base name {base!r} is neither the module {mod_segs[-1]!r} nor the single re-exported declaration {[d['python_name'] for d in info['decls']][:3]}"


def classify_collision(rel: str, api: dict | None) -> str:
    """Structural origin of two texts meeting at one path (used to attribute known findings narrowly).

    'module-vs-reexported-declaration-homonym': the path is <package P>/<N>.sdsstub where P's __init__ re-exports a
    declaration under the name N AND a module called N exists in the package - elsewhere or next to that __init__ (its stub is sent to P/N.sdsstub as well,
    because the re-export lookup for modules matches any import that ends in '.N')."""
    if api is None or not rel.endswith(".sdsstub"):
        return "unclassified"
    parts = rel.split("/")
    pkg_id, base = "/".join(parts[:-1]), parts[-1][: -len(".sdsstub")]
    # 'homonymous-declarations-one-target': two or more classes/functions called N (in different packages) are all
    # recorded as re-exported by P - e.g. `pkg/a/widget/__init__.py` and `pkg/b/widget/__init__.py` both say
    # `from ._widget import Widget`, and the suffix match on the relative import text cannot tell them apart
    decls = [d for d in api.get("classes", []) + api.get("functions", []) if d.get("name", "").lstrip("_") == base and pkg_id in (d.get("reexported_by") or [])]
    if len(decls) >= 2:
        return "homonymous-declarations-one-target"
    module_names = [m.get("name", "") for m in api.get("modules", []) if m.get("name") != "__init__"]
    for m in api.get("modules", []):
        if m.get("id") == pkg_id and m.get("name") == "__init__":
            for qi in m.get("qualified_imports", []):
                last = qi.get("qualified_name", "").split(".")[-1]
                if (qi.get("alias") or last).lstrip("_") != base:
                    continue
                as_path = qi.get("qualified_name", "").replace(".", "/")
                module_ids = [x.get("id", "") for x in api.get("modules", []) if x.get("name") != "__init__"]
                names_module = any(mid in (as_path, f"{pkg_id}/{as_path}") or mid.endswith("/" + as_path) for mid in module_ids)
                if names_module:
                    # the import names a MODULE: 'homonymous-modules-one-reexported' when two or more modules carry that
                    # short name (the re-export lookup goes by the short module name, so all of them are sent to P/N)
                    if module_names.count(last) >= 2:
                        return "homonymous-modules-one-reexported"
                elif any(n.lstrip("_") == base for n in module_names):
                    # the import names a DECLARATION N and a module called N exists as well
                    return "module-vs-reexported-declaration-homonym"
    return "unclassified"


def wrap_in_container(pkg: dict, container: str) -> dict:
    p = dict(pkg)
    p["files"] = {f"{container}/{k}": v for k, v in pkg["files"].items()}
    p["src_rel"] = container
    p["name"] = pkg.get("name", "") + f"@{container}"
    p["container"] = container
    return p


def make_cases(seed: int, tier: str, n_cases: int | None = None) -> list[dict]:
    n = n_cases or (32 if tier == "quick" else 1000)
    cases = []
    for idx in range(n):
        cs = H(seed, PROP, tier, idx)
        pkg = engine.case_package(cs, idx, corpus_every=16 if tier == "quick" else 25)
        r = rng(cs, "opts")
        if "CORPUS" not in pkg.get("features", []):
            if idx % 3 == 0:
                r0 = rng(cs, "feat")
                feats = sorted(set(r0.sample(workload.FEATURES, r0.randint(2, 6)))
                               | set(r0.sample(["FOREIGN_TYPES", "ALIAS_REEXPORT", "TIE_REEXPORT", "MODULE_REEXPORT", "UNDERSCORE_TWIN", "STAR_REEXPORT", "SNAKE_NAMES", "DEEP_PACKAGE", "NAME_ECHO", "TRAILING_UNDERSCORE"], 4)))
                pkg = workload.generate_package(H(cs, "pkg"), feats)
            if idx % 5 == 1:
                pkg = wrap_in_container(pkg, r.choice(["rel-1.2", "lib.src", "v2.0.1", "plain_dir"]))
        options = workload.pick_options(r, pkg)
        histories = []
        n_runs = 5 if tier == "quick" else 6
        for k in range(n_runs):
            rs = rng(cs, "sched", k)
            dims = ["cwd", "src_spelling", "out_spelling", "enum"] + (["invocation", "hashseed", "obj"] if k % 2 else [])
            sigma = engine.sample_sigma(rs, dims)
            opts = dict(options, nc=bool(k % 2) if k < 2 else rs.random() < 0.5)
            histories.append([{"sigma": sigma, "options": opts}])
        # library use: the function behind the command line, called with RELATIVE paths as they are spelled
        rs = rng(cs, "library")
        histories.append([{"sigma": {"cwd": rs.choice(["proj", "work", "S", "elsewhere"]), "src_spelling": rs.choice(["rel", "reltrail", "abs"]),
                                     "out_spelling": rs.choice(["rel", "reltrail", "nested_rel"])}, "options": options, "library_entry": True}])
        # one run with a fault plan: clause 1 also holds for the events of runs that fail or die
        rs = rng(cs, "fault")
        op = rs.choice(["mkdir", "open", "write", "close"])
        kind = rs.choice(_c16.ERROR_KINDS[op] + ["crash"])
        sel = {"op": op, "n": rs.randint(2, 12)}
        if op == "write":
            sel = {"op": "write", "file": rs.randint(2, 6), "wn": 1}
        histories.append([{"sigma": engine.sample_sigma(rs, ["cwd", "out_spelling"]), "options": options, "faults": [{"sel": sel, "kind": kind}]}])
        # a second run into the populated directory: clause 3 is judged on the event log of the second run
        # (an append to a file that this run did not create keeps text of the earlier run)
        rs = rng(cs, "rerun")
        first_opts = dict(options, nc=not options.get("nc")) if rs.random() < 0.5 else options  # the earlier run may have used the other naming flag
        histories.append([{"sigma": engine.sample_sigma(rs, ["enum"]), "options": first_opts},
                          {"sigma": engine.sample_sigma(rs, ["cwd", "out_spelling", "enum"]), "options": options}])
        if histories[-1][1]["sigma"].get("out_spelling") in ("nested", "nested_rel"):
            histories[-1][1]["sigma"]["out_spelling"] = "abs"
        cases.append({"index": idx, "case_seed": cs, "verif_seed": seed, "pkg": pkg, "options": options, "histories": histories})
    return cases


def judge_step(case: dict, hi: int, res: dict) -> tuple[list[dict], dict]:
    viols: list[dict] = []
    stats = {"stubs_checked": 0, "events": len(res.get("event_log", [])), "appends": 0, "rewrites_same_text": 0}
    out_rel = res["out_dir_rel"]
    prefix = out_rel + "/"
    src_name = os.path.basename(case["pkg"]["src_rel"].rstrip("/"))

    def v(cls: str, clause: str, **detail: object) -> None:
        viols.append({"class": cls, "history": hi, "detail": dict(detail, clause=clause, sigma=res.get("sigma"), outcome=res.get("outcome"), faults=res.get("faults"))})

    # clause 1: every mutation event on an output-like path lies inside the resolved out directory
    for e in res.get("event_log", []):
        p = str(e.get("path", ""))
        if e.get("op") == "outside":
            v("write-outside-sandbox", "1", path=p, event=e)
            break
        if p.endswith((".sdsstub", "__api.json")) and e.get("op") in ("open", "os_open", "utime", "mkdir") and not p.startswith(prefix):
            v("output-outside-outdir", "1", path=p, event={k: e[k] for k in ("op", "seq", "path") if k in e}, out_dir=out_rel)
            break
    pkg_files = {"S/work/proj/" + k for k in case["pkg"]["files"]}
    strays = [k for k, ent in res.get("root_tree", {}).items()
              if "sha" in ent and k not in pkg_files and ".mypy_cache" not in k.split("/") and not k.startswith(("decoy_pkg/", "decoy_file/"))]
    if strays:
        v("file-created-outside-outdir", "1", path=strays[0], strays=strays[:5], out_dir=out_rel)
    if not res.get("src_unchanged", True):
        v("source-tree-modified", "1", path="<src>")

    # clause 3: write history per path
    opened: dict[str, list] = {}
    closes: dict[str, list] = {}
    for e in res.get("event_log", []):
        p = e.get("path")
        if e.get("op") == "open":
            mode = str(e.get("mode", ""))
            if "a" in mode:
                stats["appends"] += 1
                if not any("w" in m or "x" in m for m in opened.get(p, [])):
                    v("append-to-file-not-created-in-this-run", "3", path=p, event={"seq": e.get("seq"), "mode": mode, "existed": e.get("existed")})
            opened.setdefault(p, []).append(mode)
        elif e.get("op") == "close" and ("w" in str(e.get("mode", "")) or "x" in str(e.get("mode", ""))):
            closes.setdefault(p, []).append(e.get("sha"))
    api_early = None
    for k, ent in res.get("out_tree", {}).items():
        if k.endswith("__api.json") and "data" in ent:
            try:
                api_early = json.loads(ent["data"].decode("utf-8"))
            except ValueError:
                api_early = None
    for p, shas in closes.items():
        if len(shas) > 1:
            if len(set(shas)) > 1:
                v("two-texts-one-path", "3", path=p, writes=len(shas),
                  fingerprint={"gkey": "two-texts", "collision": classify_collision(p[len(prefix):] if p.startswith(prefix) else p, api_early)})
            else:
                stats["rewrites_same_text"] += 1

    if res.get("outcome") != "completed":
        return viols, stats
    files = engine.output_files(res["out_tree"])
    # clause 4: the API inventory
    want_api = f"{src_name}__api.json"
    api = None
    apis = [k for k in files if k.endswith("__api.json")]
    if want_api not in files:
        v("api-file-misnamed", "4", path=(apis[0] if apis else None), expected=want_api, found=apis[:3], fingerprint={"gkey": "api-name"})
    for k in apis:
        try:
            api = json.loads(files[k]["data"].decode("utf-8"))
        except ValueError:
            v("api-file-not-json", "4", path=k)
    # clause 2: header vs path for every stub
    for rel, ent in sorted(files.items()):
        if not rel.endswith(".sdsstub"):
            if not rel.endswith("__api.json"):
                v("unexpected-output-file", "2", path=rel)
            continue
        stats["stubs_checked"] += 1
        reason = check_layout(rel, ent["data"].decode("utf-8", "replace"), api)
        if reason:
            v("layout-mismatch", "2", path=rel, reason=reason, header=ent["data"].decode("utf-8", "replace")[:300],
              fingerprint={"gkey": re.sub(r"'[^']*'", "'..'", reason)[:60]})
    return viols, stats


def run_case(case: dict, parallel: int = 1) -> dict:
    tag = f"{PROP}-{case['index']}"
    results = engine.run_histories(tag, case["pkg"], case["options"], case["histories"], parallel=parallel)
    verdict: dict = {"violations": [], "index": case["index"]}
    tot = {"stubs_checked": 0, "events": 0, "appends": 0, "rewrites_same_text": 0}
    outcomes: dict = {}
    fired: dict = {}
    sigs = []
    n_err = 0
    for hi, hres in enumerate(results):
        res = hres[-1]
        if res["outcome"] in ("harness_error", "timeout"):
            n_err += 1
            verdict.setdefault("harness_notes", []).append(f"history {hi}: {res['outcome']} {res.get('error', '')[:300]}")
            continue
        outcomes[res["outcome"]] = outcomes.get(res["outcome"], 0) + 1
        for f in res.get("fired") or []:
            fired[f["kind"]] = fired.get(f["kind"], 0) + 1
        if res["outcome"] == "died":
            for e in res.get("event_log", []):
                if e.get("fault"):
                    fired[e["fault"]] = fired.get(e["fault"], 0) + 1
        vs, st = judge_step(case, hi, res)
        verdict["violations"] += vs
        for k in tot:
            tot[k] += st.get(k, 0)
        if res["outcome"] == "completed":
            sigs.append(engine.io_signature(res) + ("n" if engine.nontrivial(res) else "t"))
    if n_err == len(results):
        verdict["harness_error"] = "; ".join(verdict.get("harness_notes", []))[:1500]
    verdict["stats"] = dict(tot, runs=len(results), outcomes=outcomes, fired=fired, signatures=sigs)
    return verdict


def essential_histories(case: dict, violation: dict) -> dict | None:
    case["histories"] = [case["histories"][violation.get("history", 0)]]
    return case


ASSUMPTIONS = [
    "the header recogniser accepts: optional /** */ comment, optional @PythonModule(\"...\"), `package ...`; it was validated on the three corpus packages whose layout the repo's own test_file_creation spells out",
    "POSIX leaves a leading '//' implementation-defined; Linux treats it as '/', and clause 1 is judged on the canonical path",
    "a path that is opened 'w' twice with the SAME text is not a violation (the property forbids two DIFFERENT texts)",
    "the name of the API file is judged against the base name of the resolved source directory argument",
]


def coverage(cases: list[dict], verdicts: list[dict], tier: str, wall: float) -> dict:
    tot = {"stubs_checked": 0, "events": 0, "appends": 0, "rewrites_same_text": 0, "runs": 0}
    outcomes: dict = {}
    fired: dict = {}
    sigs: set = set()
    nt: set = set()
    containers = 0
    for c, v in zip(cases, verdicts):
        st = v.get("stats") or {}
        for k in tot:
            tot[k] += st.get(k, 0)
        for k, n in (st.get("outcomes") or {}).items():
            outcomes[k] = outcomes.get(k, 0) + n
        for k, n in (st.get("fired") or {}).items():
            fired[k] = fired.get(k, 0) + n
        for s in st.get("signatures", []):
            sigs.add(s[:-1])
            if s.endswith("n"):
                nt.add(s[:-1])
        containers += 1 if c["pkg"].get("container") else 0
    samples = [{"case_seed": c["case_seed"], "package": c["pkg"].get("name"), "features": c["pkg"].get("features"),
                "runs": [{"sigma": h[0].get("sigma"), "nc": (h[0].get("options") or {}).get("nc"), "faults": h[0].get("faults")} for h in c["histories"]][:4]} for c in cases[:2]]
    return {
        "evaluations": tot["runs"],
        "distinct_nontrivial": len(nt),
        "rule": "one evaluation = one whole-tool run whose complete mutation-event log and final tree are judged against the four clauses; distinct = distinct I/O-trace signatures "
                "(sequence of (op, relpath) mkdir/open events + hashseed class) of completed runs; non-trivial = the run wrote >= 2 stub files",
        "samples": samples,
        "stub_files_checked_against_header": tot["stubs_checked"],
        "logical_steps_mutation_events": tot["events"],
        "placeholder_append_opens_seen": tot["appends"],
        "paths_rewritten_with_same_text": tot["rewrites_same_text"],
        "cases_with_source_in_container_dir": containers,
        "outcomes": outcomes,
        "fault_kinds_fired": fired,
        "distinct_io_signatures_all": len(sigs),
        "runs_per_hour": int(tot["runs"] / wall * 3600) if wall > 0 else 0,
    }
