"""C16 - stub generation neither mutates the API model nor depends on earlier generations;
a second run into the same output directory leaves exactly what a single run produces.

(a) layer C: seeded histories of generations / single-module renderings / writes on ONE live model
    after one real get_api, checked operation by operation against reference answers obtained
    from pristine copies of the model (taken before any generation).
(b) layer E: histories RUN;RUN / RUN(fault);RUN / RUN(crash at event k);RUN over one sandbox,
    the final tree compared with the tree of a single clean run into an empty directory.
"""
from __future__ import annotations

import os
import re

from .. import engine, runner, workload
from ..seeds import H, rng

PROP = "C16"

ERROR_KINDS = {
    "mkdir": ["erofs_mkdir", "enospc_mkdir", "eacces_mkdir", "interrupt_mkdir"],
    "open": ["enospc_open", "eacces_open", "emfile_open", "interrupt_open"],
    "os_open": ["eacces_osopen", "enospc_osopen"],
    "utime": ["eacces_utime"],
    "write": ["eio_write", "enospc_write", "enospc_write_short", "eio_write_short", "interrupt_write"],
    "close": ["enospc_close", "eio_close", "interrupt_close"],
    "replace": ["eacces_replace", "enospc_replace", "interrupt_replace"],
    "rename": ["eacces_rename", "enospc_rename", "interrupt_rename"],
    "unlink": ["eacces_unlink", "interrupt_unlink"],
}


def _ops_history(r, n_modules_hint: int = 6) -> list[dict]:  # noqa: ANN001
    first_flag = r.random() < 0.5
    ops: list[dict] = [
        {"op": "GEN", "flag": first_flag, "model": "fresh"},
        {"op": "GEN", "flag": not first_flag, "model": "fresh"},
        {"op": "GEN_SEQ", "flag": False, "model": "fresh", "order_seed": r.getrandbits(32), "prefix": 1.0},
        {"op": "GEN_SEQ", "flag": first_flag, "model": "fresh", "order_mode": "model", "prefix": 1.0},
        {"op": "GEN_SEQ", "flag": first_flag, "model": "fresh", "order_mode": "reversed", "prefix": 1.0},
    ]
    for _ in range(r.randint(3, 8)):
        k = r.choice(["GEN", "GEN", "GEN", "GEN_SEQ", "GEN_ONE", "DICT", "WRITE", "JSON"])
        if k == "GEN":
            ops.append({"op": "GEN", "flag": r.random() < 0.5, "model": "live"})
        elif k == "GEN_SEQ":
            ops.append({"op": "GEN_SEQ", "flag": r.random() < 0.5, "model": r.choice(["live", "fresh"]), "order_seed": r.getrandbits(32),
                        "prefix": r.choice([0.3, 0.6, 1.0])})
        elif k == "GEN_ONE":
            ops.append({"op": "GEN_ONE", "flag": r.random() < 0.5, "model": r.choice(["live", "fresh"]), "module": r.randrange(0, 64)})
        elif k == "WRITE":
            ops.append({"op": "WRITE", "model": r.choice(["live", "fresh"]), "flag": r.random() < 0.5, "repeat": r.choice([1, 2, 2])})
        else:
            ops.append({"op": k, "model": "live", "flag": r.random() < 0.5})
    ops.append({"op": "GEN", "flag": False, "model": "live"})
    ops.append({"op": "GEN", "flag": True, "model": "live"})
    return ops


def make_cases(seed: int, tier: str, n_cases: int | None = None) -> list[dict]:
    n = n_cases or (32 if tier == "quick" else 600)
    cases = []
    for idx in range(n):
        cs = H(seed, PROP, tier, idx)
        pkg = engine.case_package(cs, idx, corpus_every=16 if tier == "quick" else 25)
        if idx % 4 == 0 and "CORPUS" not in pkg.get("features", []):
            # bias: every fourth case certainly contains the shared-rendering probes
            r0 = rng(cs, "feat")
            feats = sorted(set(r0.sample(workload.FEATURES, r0.randint(2, 6))) | {"PRIVATE_BASE_2SUBS", "LITERAL_OPT", "ALIAS_REEXPORT"})
            pkg = workload.generate_package(H(cs, "pkg"), feats)
        r = rng(cs, "opts")
        options = workload.pick_options(r, pkg)
        sigma = engine.sample_sigma(rng(cs, "sched"), ["hashseed", "enum", "obj"])
        c_step = {"sigma": sigma, "job_extra": {"kind": "C", "options": options, "ops": _ops_history(rng(cs, "ops"))}}
        cases.append(
            {
                "index": idx, "case_seed": cs, "verif_seed": seed, "pkg": pkg, "options": options,
                "params": {"tier": tier, "sigma": sigma, "n_crash": 1 if tier == "quick" else 3,
                           "crash_all": tier != "quick" and idx % 24 == 1 and "CORPUS" not in pkg.get("features", [])},
                "histories": [[c_step], [{"sigma": sigma}]],
                "planned": False,
            },
        )
    return cases


def plan_e_histories(case: dict, ref: dict) -> list[list[dict]]:
    """Fault and crash points stratified over the mutation events of the reference run."""
    sigma = case["params"]["sigma"]
    r = rng(case["case_seed"], "plan")
    strata = engine.fault_strata(ref.get("event_log", []))
    hs: list[list[dict]] = [[{"sigma": sigma}, {"sigma": sigma}]]
    # the second run reaches the same output directory from another working directory / through another spelling
    other = dict(sigma, **engine.sample_sigma(r, ["cwd", "out_spelling", "src_spelling"]))
    if other.get("out_spelling") in ("nested", "nested_rel"):
        other["out_spelling"] = "rel"
    if other.get("cwd") == "out":
        other["cwd"] = "proj"
    hs.append([{"sigma": sigma}, {"sigma": other}])
    # the directory was populated by a run with the OTHER naming flag (same paths, other contents): everything is overwritten
    flipped = dict(case["options"], nc=not case["options"].get("nc"))
    hs.append([{"sigma": sigma, "options": flipped}, {"sigma": sigma}])
    # the directory was populated by a run on an older, LARGER version of the package: every file this run writes exists
    # already with longer contents (same paths; nothing no run of the tool would create) - all of it is replaced
    stale = {}
    for k, v in sorted(ref["out_tree"].items()):
        if "sha" in v and "data" in v:
            stale[k] = v["data"].decode("utf-8", "replace") + "\n// tail of an older, longer version of this file\n" * 3
    if stale:
        hs.append([{"sigma": sigma, "prepop_files": stale}])
    if not strata:
        return hs
    e = engine.pick_fault_event(r, strata)
    if e is not None:
        kind = r.choice(ERROR_KINDS[e["op"]])
        hs.append([{"sigma": sigma, "faults": [{"sel": engine.selector_for(e), "kind": kind}]}, {"sigma": sigma}])
    if case["params"].get("crash_all"):
        # exhaustive stratum: process death at EVERY mkdir/touch/open/close and at the first and last write of every file
        for cls in sorted(strata):
            for f in strata[cls]:
                for op in engine.FAULT_OPS:
                    evs = f["events"].get(op) or []
                    if op == "write" and len(evs) > 2:
                        evs = [evs[0], evs[-1]]
                    for e in evs:
                        kind = "torn_crash" if op == "write" else "crash"
                        hs.append([{"sigma": sigma, "faults": [{"sel": engine.selector_for(e), "kind": kind}]}, {"sigma": sigma}])
        return hs
    for _ in range(case["params"].get("n_crash", 1)):
        e = engine.pick_fault_event(r, strata)
        if e is None:
            continue
        kind = "torn_crash" if e["op"] == "write" and r.random() < 0.5 else "crash"
        hs.append([{"sigma": sigma, "faults": [{"sel": engine.selector_for(e), "kind": kind}]}, {"sigma": sigma}])
    return hs


# --------------------------------------------------------------------------- (a) judge


def _class_blocks(text: str) -> dict[str, list[str]]:
    """Top-level class name -> lines of its body (between the line that opens the class and its closing brace)."""
    blocks: dict[str, list[str]] = {}
    lines = text.split("\n")
    i = 0
    while i < len(lines):
        m = re.match(r"^class\s+`?([A-Za-z_][A-Za-z0-9_]*)`?", lines[i])
        if m and lines[i].rstrip().endswith("{"):
            name = m.group(1)
            body = []
            i += 1
            while i < len(lines) and lines[i] != "}":
                body.append(lines[i])
                i += 1
            blocks[name] = body
        i += 1
    return blocks


def _member_chunk(body: list[str], member: str) -> str | None:
    """The blank-line separated chunk of a class body that declares `fun <member>(`."""
    chunks: list[list[str]] = [[]]
    for ln in body:
        if ln.strip() == "":
            chunks.append([])
        else:
            chunks[-1].append(ln)
    pat = re.compile(r"\bfun\s+`?" + re.escape(member) + r"`?\s*[(<]")
    for ch in chunks:
        if any(pat.search(ln) for ln in ch):
            return "\n".join(ln.strip() for ln in ch)
    return None


def judge_inherit_groups(pkg: dict, gen_entries: list[tuple[str, str]], flag: bool) -> list[dict]:
    """Members inlined from one private base into several public subclasses must have identical text.
    gen_entries: (directory of the stub relative to the output directory, text). A class is looked up in the stub of
    its own module; only if it is not there (re-exported elsewhere) by its name, and then only if that name is unique
    (two packages of one workload may both have a class PubOne)."""
    out = []
    groups = (pkg.get("meta", {}).get("probes") or {}).get("inherit_groups") or []
    if not groups:
        return out
    by_dir: dict[str, dict[str, list[str]]] = {}
    by_name: dict[str, list[list[str]]] = {}
    for d_rel, t in gen_entries:
        for name, body in _class_blocks(t).items():
            by_dir.setdefault(d_rel, {}).setdefault(name, body)
            by_name.setdefault(name, []).append(body)
    blocks: dict[str, list[str]] = {}
    for g in groups:
        for sub in g["subs"]:
            cname = sub.split(".")[-1]
            mod_dir = "/".join(sub.split(".")[:-1])
            body = (by_dir.get(mod_dir) or {}).get(cname)
            if body is None and len(by_name.get(cname, [])) == 1:
                body = by_name[cname][0]
            if body is not None:
                blocks[sub] = body
    for g in groups:
        for member in g["members"]:
            seen: dict[str, str] = {}
            for sub in g["subs"]:
                cname = sub.split(".")[-1]
                body = blocks.get(sub)
                if body is None:
                    continue
                ch = _member_chunk(body, member)
                if ch is not None:
                    seen[cname] = ch
            present_classes = [sub.split(".")[-1] for sub in g["subs"] if sub in blocks]
            missing = [c for c in present_classes if c not in seen]
            if seen and missing:
                a = sorted(seen)[0]
                out.append({"member": member, "base": g["base"], "class_a": a, "class_b": missing[0], "text_a": seen[a], "text_b": "<member not rendered in this subclass>", "flag": flag})
            if len(set(seen.values())) > 1:
                names = sorted(seen)
                a, b = names[0], next(n for n in names if seen[n] != seen[names[0]])
                out.append({"member": member, "base": g["base"], "class_a": a, "class_b": b, "text_a": seen[a], "text_b": seen[b], "flag": flag})
    return out


def judge_against_fresh_process(case: dict, comp: dict, ref: dict) -> list[dict]:
    """Independent reference for 'does not depend on earlier generations': the texts of every generation made with the
    run's own naming flag - whatever was generated before it in the component process - must equal the stub files
    that the CLI wrote in a fresh process (same package, options and schedule)."""
    out: list[dict] = []
    nc = bool(case["options"].get("nc"))
    files = engine.output_files(ref["out_tree"])
    texts = comp.get("texts", {})
    ops_spec = case["histories"][0][0]["job_extra"]["ops"]
    for rec, spec in zip(comp.get("ops", []), ops_spec, strict=False):
        if rec.get("op") != "GEN" or bool(spec.get("flag")) != nc or "gen" not in rec:
            continue
        by_path: dict[str, list[str]] = {}
        for d_rel, name, sha, is_pkg in rec["gen"]:
            d = os.path.dirname(d_rel) if is_pkg else d_rel
            path = os.path.normpath(os.path.join(d, f"{name.lstrip('_')}.sdsstub"))
            by_path.setdefault(path, []).append(sha)
        for path, shas in sorted(by_path.items()):
            if len(shas) != 1 or path not in files or shas[0] not in texts:
                continue  # colliding paths (see K-C10-1) or files the run did not write are not comparable
            want = files[path]["data"].decode("utf-8", "replace")
            got = texts[shas[0]]
            if got != want:
                import difflib

                out.append({"class": "generation-differs-from-fresh-process", "history": 0, "detail": {
                    "path": path, "k": rec["k"], "op": spec, "earlier_ops": [f"{o['op']}({'nc' if o.get('flag') else 'py'})" for o in ops_spec[: rec["k"]]],
                    "diff": list(difflib.unified_diff(want.splitlines(), got.splitlines(), "fresh-process", "after-earlier-generations", lineterm="", n=1))[:16],
                    "fingerprint": {"gkey": "fresh-process"}}})
                return out
    return out


def judge_component(case: dict, res: dict) -> tuple[list[dict], dict]:
    viols: list[dict] = []
    stats = {"ops": 0, "gens": 0, "second_renderings": 0, "inherit_members_compared": 0}
    if res.get("outcome") != "completed":
        return viols, stats
    texts = res.get("texts", {})
    base: dict[bool, list] = {}
    base_op: dict[bool, int] = {}
    module_text: dict[tuple[str, bool], str] = {}
    module_text_op: dict[tuple[str, bool], int] = {}
    ops_spec = case["histories"][0][0]["job_extra"]["ops"]
    first_error_seen = False
    for rec, spec in zip(res.get("ops", []), ops_spec, strict=False):
        stats["ops"] += 1
        flag = bool(spec.get("flag"))
        if rec.get("exception"):
            if not first_error_seen:
                first_error_seen = True
                viols.append({"class": "op-raised", "history": 0, "detail": {"op": spec, "k": rec["k"], "exception": rec["exception"],
                                                                           "fingerprint": {"gkey": "op-raised"}}})
            continue
        if "api_diff" in rec:
            viols.append({"class": "model-mutated", "history": 0,
                          "detail": {"after_op": spec, "k": rec["k"], "first_difference": rec["api_diff"],
                                     "fingerprint": {"gkey": re.sub(r"\[[^\]]*\]", "[*]", rec["api_diff"].split(":")[0])}}})
            break
        if rec["op"] == "GEN":
            stats["gens"] += 1
            if flag not in base:
                base[flag] = rec["gen"]
                base_op[flag] = rec["k"]
                gen_entries = [(e[0], texts[e[2]]) for e in rec["gen"] if e[2] in texts]
                for iv in judge_inherit_groups(case["pkg"], gen_entries, flag):
                    viols.append({"class": "inherited-rendering-differs", "history": 0, "detail": dict(iv, k=rec["k"], fingerprint={"gkey": "inherit"})})
                stats["inherit_members_compared"] += sum(len(g["members"]) for g in (case["pkg"].get("meta", {}).get("probes") or {}).get("inherit_groups") or [])
            else:
                stats["second_renderings"] += 1
                if rec["gen"] != base[flag]:
                    a, b = base[flag], rec["gen"]
                    diff = next(({"first": x, "second": y} for x, y in zip(a, b, strict=False) if x != y), {"lengths": [len(a), len(b)]})
                    detail = {"op": spec, "k": rec["k"], "baseline_k": base_op[flag], "entry": diff, "fingerprint": {"gkey": "regen"}}
                    if "first" in diff and diff["first"][2] in texts and diff["second"][2] in texts:
                        import difflib

                        detail["diff"] = list(difflib.unified_diff(texts[diff["first"][2]].splitlines(), texts[diff["second"][2]].splitlines(), lineterm="", n=1))[:20]
                    viols.append({"class": "regeneration-differs", "history": 0, "detail": detail})
                    break
        elif rec["op"] == "WRITE":
            for tr in rec.get("trees") or []:
                stats["second_renderings"] += 1
                key = ("__write__", flag)
                if key not in module_text:
                    module_text[key] = tr[1]
                    module_text_op[key] = rec["k"]
                elif module_text[key] != tr[1]:
                    viols.append({"class": "written-tree-depends-on-history", "history": 0,
                                  "detail": {"flag": flag, "k": rec["k"], "baseline_k": module_text_op[key], "files": tr[0], "op": spec,
                                             "fingerprint": {"gkey": "write-tree"}}})
                    return viols, stats
        elif rec["op"] in ("GEN_SEQ", "GEN_ONE"):
            items = rec.get("modules") or ({rec["module_id"]: rec["text"]} if rec.get("module_id") else {})
            for mid, sha in items.items():
                key = (mid, flag)
                stats["second_renderings"] += 1
                if key not in module_text:
                    module_text[key] = sha
                    module_text_op[key] = rec["k"]
                elif module_text[key] != sha:
                    import difflib

                    d = list(difflib.unified_diff(texts.get(module_text[key], "").splitlines(), texts.get(sha, "").splitlines(), lineterm="", n=1))[:20]
                    viols.append({"class": "module-rendering-depends-on-history", "history": 0,
                                  "detail": {"module": mid, "flag": flag, "k": rec["k"], "baseline_k": module_text_op[key], "diff": d,
                                             "fingerprint": {"gkey": "modseq"}}})
                    return viols, stats
    return viols, stats


# --------------------------------------------------------------------------- case


def run_case(case: dict, parallel: int = 1) -> dict:
    tag = f"{PROP}-{case['index']}"
    verdict: dict = {"violations": [], "index": case["index"], "stats": {}}
    first = engine.run_histories(tag + "a", case["pkg"], case["options"], case["histories"][:2], parallel=parallel)
    comp, ref = first[0][0], first[1][0]
    for r_, what in ((comp, "component"), (ref, "reference")):
        if r_["outcome"] in ("harness_error", "timeout"):
            verdict["harness_error"] = f"{what} run: {r_['outcome']} {r_.get('error', '')} {r_.get('stderr_tail', '')}"[:1500]
            return verdict
    if comp.get("deepcopy_faithful") is False:
        verdict["harness_error"] = "deepcopy of the API model is not faithful; pristine-copy reference unusable"
        return verdict
    if ref["outcome"] != "completed" or comp["outcome"] != "completed":
        verdict["skipped"] = f"reference run not completed ({ref['outcome']}/{comp['outcome']}): left to C01"
        return verdict
    viols, cstats = judge_component(case, comp)
    verdict["violations"] += viols
    verdict["violations"] += judge_against_fresh_process(case, comp, ref)
    if not case.get("planned"):
        case["histories"] = case["histories"][:2] + plan_e_histories(case, ref)
        case["planned"] = True
    rest = engine.run_histories(tag + "b", case["pkg"], case["options"], case["histories"][2:], parallel=parallel)
    fired: dict = {}
    configured: dict = {}
    second_outcomes: dict = {}
    for hi, hres in enumerate(rest, start=2):
        spec = case["histories"][hi]
        for st in spec:
            for f in st.get("faults") or []:
                configured[f["kind"]] = configured.get(f["kind"], 0) + 1
        for sres in hres:
            for f in sres.get("fired") or []:
                fired[f["kind"]] = fired.get(f["kind"], 0) + 1
            for e in sres.get("event_log", []):
                if e.get("fault") and not (sres.get("fired")):
                    fired[e["fault"]] = fired.get(e["fault"], 0) + 1  # the child died before it could report
        last = hres[-1]
        if last["outcome"] in ("harness_error", "timeout"):
            verdict.setdefault("harness_notes", []).append(f"history {hi}: {last['outcome']}")
            continue
        second_outcomes[last["outcome"]] = second_outcomes.get(last["outcome"], 0) + 1
        if last["outcome"] == "not_loadable":
            # the type checker refused the package from this working directory (see known finding K-C08-1): that is the
            # cwd dimension of C08, nothing the state of the output directory can cause; not judged here
            verdict.setdefault("harness_notes", []).append(f"history {hi}: final run not loadable by the type checker from its cwd (C08 matter)")
            continue
        first_step = hres[0]
        label = "rerun"
        if spec[0].get("faults"):
            label = "crash" if "crash" in spec[0]["faults"][0]["kind"] else "fault"
        if last["outcome"] != "completed":
            verdict["violations"].append({"class": f"second-run-{label}-not-completed", "history": hi,
                                          "detail": {"outcome": last["outcome"], "exception": last.get("exception"), "first_step_outcome": first_step["outcome"],
                                                     "faults": spec[0].get("faults")}})
            continue
        d = engine.first_difference(ref["out_tree"], last["out_tree"])
        if d is not None:
            verdict["violations"].append({"class": f"tree-after-{label}-differs", "history": hi,
                                          "detail": {"difference": d, "first_step_outcome": first_step["outcome"], "faults": spec[0].get("faults")}})
    e_steps = [ref] + [s for h in rest for s in h]
    verdict["stats"] = dict(
        cstats,
        runs=1 + len(e_steps),
        signatures=[engine.io_signature(s) for s in e_steps],
        nontrivial=engine.nontrivial(ref),
        fired=fired,
        configured=configured,
        second_outcomes=second_outcomes,
        first_outcomes=[h[0]["outcome"] for h in rest],
        events=sum(s.get("events", 0) for s in e_steps),
        histories=len(rest),
        crash_all=1 if case["params"].get("crash_all") else 0,
    )
    return verdict


def essential_histories(case: dict, violation: dict) -> dict | None:
    hi = violation.get("history", 0)
    if hi < 2:
        case["histories"] = case["histories"][:2]
    else:
        case["histories"] = case["histories"][:2] + [case["histories"][hi]]
    case["planned"] = True
    return case


ASSUMPTIONS = [
    "a deep copy of the API model taken before any generation stands for a fresh model (checked: its to_dict() equals the original's)",
    "process death is modelled (os._exit at a chosen event: user-space buffers are lost, what reached the kernel stays); power loss is not",
    "pre-existing files at paths that no run of the tool on this package would write are outside the property and are not pre-populated (longer, older versions of the files it does write are)",
    "the reference tree of clause (b) is the tree of one clean run of the same package/options/schedule into an empty directory",
]


def coverage(cases: list[dict], verdicts: list[dict], tier: str, wall: float) -> dict:
    sigs: set = set()
    nt: set = set()
    tot = {"runs": 0, "ops": 0, "gens": 0, "second_renderings": 0, "inherit_members_compared": 0, "events": 0, "histories": 0, "crash_all": 0}
    fired: dict = {}
    configured: dict = {}
    second: dict = {}
    firsts: dict = {}
    for v in verdicts:
        st = v.get("stats") or {}
        for k in tot:
            tot[k] += st.get(k, 0)
        for s in st.get("signatures", []):
            sigs.add(s)
            if st.get("nontrivial"):
                nt.add(s)
        for k, n in (st.get("fired") or {}).items():
            fired[k] = fired.get(k, 0) + n
        for k, n in (st.get("configured") or {}).items():
            configured[k] = configured.get(k, 0) + n
        for k, n in (st.get("second_outcomes") or {}).items():
            second[k] = second.get(k, 0) + n
        for o in st.get("first_outcomes") or []:
            firsts[o] = firsts.get(o, 0) + 1
    samples = []
    for c in cases[:2]:
        samples.append({
            "case_seed": c["case_seed"], "package": c["pkg"].get("name"), "features": c["pkg"].get("features"), "options": c["options"],
            "component_ops": [f"{o['op']}({'nc' if o.get('flag') else 'py'},{o.get('model', 'live')})" for o in c["histories"][0][0]["job_extra"]["ops"]],
            "run_histories": [[("RUN" + (f"[{s['faults'][0]['kind']}@{s['faults'][0]['sel']}]" if s.get("faults") else "")) for s in h] for h in c["histories"][1:]],
        })
    return {
        "evaluations": tot["runs"] + tot["ops"],
        "distinct_nontrivial": len(nt),
        "rule": "evaluations = whole-tool runs (layer E, incl. first and second runs of each history) + component operations on live models (layer C); "
                "distinct = distinct I/O-trace signatures of the layer-E runs (sequence of (op, relpath) mkdir/open events + hashseed class); non-trivial = the case's reference run wrote >= 2 stub files",
        "samples": samples,
        "whole_tool_runs": tot["runs"],
        "component_ops": tot["ops"],
        "generations_on_shared_models": tot["gens"],
        "second_renderings_compared": tot["second_renderings"],
        "inherited_member_probes_compared": tot["inherit_members_compared"],
        "run_histories": tot["histories"],
        "cases_with_every_crash_point_enumerated": tot["crash_all"],
        "logical_steps_mutation_events": tot["events"],
        "fault_kinds_configured": configured,
        "fault_kinds_fired": fired,
        "first_step_outcomes": firsts,
        "final_step_outcomes": second,
        "distinct_io_signatures_all": len(sigs),
        "runs_per_hour": int(tot["runs"] / wall * 3600) if wall > 0 else 0,
    }
