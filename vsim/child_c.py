"""Layer C of the simulator: component histories inside one child process.

After ONE real get_api (real mypy build, real griffe load) the child drives public operations of
the stub generator, in the order given by the job, against the live API model, and reports what
each operation returned plus a digest of the model after every operation.  The oracles are
evaluated by the parent (vsim/oracles/c16.py, c13.py).
"""
from __future__ import annotations

import copy
import hashlib
import json
import os
import traceback
from pathlib import Path


def _canon(obj: object) -> str:
    return json.dumps(obj, sort_keys=True, ensure_ascii=True, default=repr)


def _sha(text: str) -> str:
    return hashlib.sha256(text.encode("utf-8", "surrogatepass")).hexdigest()


def _first_json_diff(a: object, b: object, path: str = "$") -> str | None:
    if type(a) is not type(b):
        return f"{path}: type {type(a).__name__} -> {type(b).__name__}"
    if isinstance(a, dict):
        for k in sorted(set(a) | set(b)):
            if k not in a or k not in b:
                return f"{path}.{k}: key {'added' if k in b else 'removed'}"
            d = _first_json_diff(a[k], b[k], f"{path}.{k}")
            if d:
                return d
        return None
    if isinstance(a, list):
        if len(a) != len(b):
            return f"{path}: list length {len(a)} -> {len(b)}"
        for i, (x, y) in enumerate(zip(a, b, strict=True)):
            ident = x.get("id") if isinstance(x, dict) else None
            d = _first_json_diff(x, y, f"{path}[{ident or i}]")
            if d:
                return d
        return None
    if a != b:
        return f"{path}: {a!r} -> {b!r}"[:300]
    return None


def run(job: dict, state: dict, child) -> dict:  # noqa: ANN001
    from safeds_stubgen.api_analyzer import TypeSourcePreference, TypeSourceWarning, get_api
    from safeds_stubgen.docstring_parsing import DocstringStyle
    from safeds_stubgen.stubs_generator import StubsStringGenerator, create_stub_files, generate_stub_data

    if job.get("c_kind") == "docstring":
        import importlib.util

        spec = importlib.util.spec_from_file_location("vsim_child_doc", os.path.join(job["harness_dir"], "child_doc.py"))
        mod = importlib.util.module_from_spec(spec)  # type: ignore[arg-type]
        spec.loader.exec_module(mod)  # type: ignore[union-attr]
        return mod.run(job, state, child)

    opts = job.get("options") or {}
    out_dir = Path(job["out_dir"])
    res: dict = {"outcome": "completed", "ops": [], "texts": {}}
    state["active"] = True
    try:
        api = get_api(
            root=Path(job["src_dir"]),
            docstring_style=DocstringStyle.from_string(opts.get("docstyle") or "PLAINTEXT"),
            is_test_run=bool(opts.get("tr")),
            type_source_preference=TypeSourcePreference.from_string(opts.get("tsp") or "CODE"),
            type_source_warning=TypeSourceWarning.from_string(opts.get("tsw") or "WARN"),
        )
    except BaseException as e:  # noqa: BLE001
        state["active"] = False
        res["outcome"] = "rejected" if (isinstance(e, ValueError) and str(e) == "No files found to analyse.") else "failed"
        res["exception"] = child._exc_info(e, job["repo_src"])
        return res

    # the pristine copy is taken BEFORE the model is serialised for the first time: "fresh" models have never seen a
    # to_dict()/to_json_file() call, the live model has (the CLI serialises first, library users may generate first)
    pristine = copy.deepcopy(api)
    d0 = _canon(api.to_dict())
    d0_obj = json.loads(d0)  # a private copy: to_dict() may hand out lists that alias the model
    res["deepcopy_faithful"] = _canon(copy.deepcopy(pristine).to_dict()) == d0
    res["d0_sha"] = _sha(d0)
    module_ids = sorted(m.id for m in api.modules.values() if m.name != "__init__")
    res["module_ids"] = module_ids

    def keep(text: str) -> str:
        h = _sha(text)
        res["texts"].setdefault(h, text)
        return h

    def rel(p: Path) -> str:
        s = str(p)
        while s.startswith("//"):
            s = s[1:]
        try:
            return os.path.relpath(s, str(out_dir))
        except ValueError:
            return s

    last_gen: dict = {}
    for k, op in enumerate(job.get("ops") or []):
        rec: dict = {"op": op["op"], "k": k}
        model = api if op.get("model", "live") == "live" else copy.deepcopy(pristine)
        flag = bool(op.get("flag"))
        try:
            if op["op"] == "GEN":
                gen = StubsStringGenerator(api=model, convert_identifiers=flag)
                data = generate_stub_data(stubs_generator=gen, out_path=out_dir)
                rec["gen"] = [[rel(d[0]), d[1], keep(d[2]), bool(d[3])] for d in data]
                rec["outside"] = sorted(gen.classes_outside_package)
                if op.get("model", "live") == "live":
                    last_gen = {"gen": gen, "data": data}
            elif op["op"] == "GEN_ONE":
                gen = StubsStringGenerator(api=model, convert_identifiers=flag)
                mid = module_ids[op["module"] % len(module_ids)] if module_ids else None
                if mid is not None:
                    mod_obj = next(m for m in model.modules.values() if m.id == mid)
                    text, pkg_info = gen(mod_obj)
                    rec["module_id"] = mid
                    rec["text"] = keep(text)
                    rec["package_info"] = pkg_info
            elif op["op"] == "GEN_SEQ":
                # one generator renders the modules in a seeded order (a prefix of a permutation)
                gen = StubsStringGenerator(api=model, convert_identifiers=flag)
                if op.get("order_mode") in ("model", "reversed"):
                    # the order in which the CLI renders them (insertion order of api.modules), or exactly the opposite:
                    # together the two put every pair of modules in both relative orders
                    order = [m.id for m in model.modules.values() if m.name != "__init__"]
                    if op["order_mode"] == "reversed":
                        order = order[::-1]
                else:
                    order = sorted(module_ids, key=lambda mid: hashlib.sha256(f"{op.get('order_seed', 0)}|{mid}".encode()).hexdigest())
                order = order[: max(1, int(len(order) * float(op.get("prefix", 1.0))))] if order else []
                by_id = {m.id: m for m in model.modules.values()}
                rec["order"] = order
                rec["modules"] = {}
                for mid in order:
                    text, _pkg_info = gen(by_id[mid])
                    rec["modules"][mid] = keep(text)
            elif op["op"] == "WRITE":
                # generate with a fresh generator on the chosen model, then write the SAME data `repeat` times into the
                # (emptied) output directory; the tree after every write is reported
                import shutil

                gen = StubsStringGenerator(api=model, convert_identifiers=flag)
                data = generate_stub_data(stubs_generator=gen, out_path=out_dir)
                state["active"] = False
                shutil.rmtree(out_dir, ignore_errors=True)
                state["active"] = True
                rec["trees"] = []
                for _rep in range(int(op.get("repeat", 1))):
                    create_stub_files(stubs_generator=gen, stubs_data=data, out_path=out_dir)
                    m = hashlib.sha256()
                    n_files = 0
                    for dirpath, dirnames, filenames in os.walk(out_dir):
                        dirnames.sort()
                        for fn in sorted(filenames):
                            full = os.path.join(dirpath, fn)
                            with open(full, "rb") as fh:
                                m.update(os.path.relpath(full, out_dir).encode() + b"\0" + hashlib.sha256(fh.read()).digest())
                            n_files += 1
                    rec["trees"].append([n_files, m.hexdigest()])
                rec["written"] = len(data)
            elif op["op"] == "JSON":
                model.to_json_file(out_dir / "component__api.json")
            elif op["op"] == "DICT":
                rec["dict_sha"] = _sha(_canon(model.to_dict()))
            else:
                rec["error"] = f"unknown op {op['op']}"
        except BaseException as e:  # noqa: BLE001
            rec["exception"] = child._exc_info(e, job["repo_src"])
        now = _canon(api.to_dict())
        now_obj = json.loads(now)
        rec["api_sha"] = _sha(now)
        if now != d0:
            rec["api_diff"] = _first_json_diff(d0_obj, now_obj)
            if rec["api_diff"] is None:
                i = next((j for j, (x, y) in enumerate(zip(d0, now, strict=False)) if x != y), min(len(d0), len(now)))
                rec["api_diff"] = f"$<text@{i}>: ...{d0[max(0, i - 80): i + 40]!r} -> ...{now[max(0, i - 80): i + 40]!r}"
        res["ops"].append(rec)
    state["active"] = False
    if job.get("keep_api_json"):
        res["api_dict"] = d0_obj
    return res


def _unused() -> None:  # keep traceback imported for debugging sessions
    traceback.print_exc()
