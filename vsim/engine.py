"""Shared machinery of the checks: case seeds, schedule sampling, batch execution with
index-ordered merging, known-finding handling, replay files, evidence files.
"""
from __future__ import annotations

import difflib
import json
import os
import sys
import time
from concurrent.futures import ThreadPoolExecutor

from . import runner, workload
from .seeds import DEFAULT_SEED, H, rng

VERIF_DIR = runner.VERIF_DIR
EVIDENCE_DIR = os.environ.get("VERIF_EVIDENCE_DIR") or os.path.join(VERIF_DIR, "evidence")
REPLAY_DIR = os.environ.get("VERIF_REPLAY_DIR") or os.path.join(VERIF_DIR, "replays")
KNOWN_FILE = os.path.join(VERIF_DIR, "KNOWN_FINDINGS.txt")


def verif_seed() -> int:
    try:
        return int(os.environ.get("VERIF_SEED", "") or DEFAULT_SEED)
    except ValueError:
        return DEFAULT_SEED


def log(msg: str) -> None:
    # logging never draws from a PRNG and never reads a clock that feeds back into decisions
    sys.stdout.write(msg + "\n")
    sys.stdout.flush()


# --------------------------------------------------------------------------- schedule sampling

CWD_KINDS = ["proj", "work", "S", "src", "srcsub", "src_testdir", "out", "elsewhere", "ro", "decoy_pkg", "decoy_file"]
INVOCATIONS = ["console", "dash_m", "pythonpath0", "pythonpath1", "pythonpath2", "pythonpath3"]
SRC_SPELLINGS = ["rel", "trail", "dot", "detour", "symlink", "reltrail"]
OUT_SPELLINGS = ["rel", "trail", "dot", "detour", "symlink", "symlink_dotdot", "reltrail", "nested", "nested_rel"]
SMALL_HASHSEEDS = list(range(1, 16))


def sample_dim(r, dim: str):  # noqa: ANN001, ANN201
    if dim == "hashseed":
        return r.choice(SMALL_HASHSEEDS) if r.random() < 0.5 else r.randrange(1, 2**32)
    if dim in ("enum", "obj"):
        if r.random() < 0.3:
            return {"mode": "reversed"}
        return {"mode": "random", "seed": r.getrandbits(32)}
    if dim == "cwd":
        return r.choice(CWD_KINDS)
    if dim == "invocation":
        return r.choice(INVOCATIONS[1:])
    if dim == "src_spelling":
        return r.choice(SRC_SPELLINGS)
    if dim == "out_spelling":
        return r.choice(OUT_SPELLINGS)
    if dim == "env":
        if r.random() < 0.25:
            # the most hostile legal text environment: C locale that is not coerced (LC_ALL set) and UTF-8 mode off
            return {"LC_ALL": r.choice(["C", "POSIX"]), "PYTHONUTF8": "0", "umask": r.choice([0o022, 0o077])}
        env = {
            "LANG": r.choice(["C", "POSIX", "C.UTF-8"]),
            "umask": r.choice([0o022, 0o077, 0o027]),
        }
        if r.random() < 0.5:
            env["LC_ALL"] = r.choice(["C", "POSIX", "C.UTF-8"])
        if r.random() < 0.5:
            env["PYTHONUTF8"] = r.choice(["0", "1"])
        if r.random() < 0.3:
            env["TZ"] = r.choice(["UTC", "Asia/Tokyo", "America/Los_Angeles"])
        if r.random() < 0.3:
            env["COLUMNS"] = r.choice(["20", "400"])
        if r.random() < 0.3:
            env["NO_COLOR"] = "1"
        return env
    raise ValueError(dim)


def sample_sigma(r, dims: list[str]) -> dict:  # noqa: ANN001
    return {d: sample_dim(r, d) for d in dims}


# --------------------------------------------------------------------------- packages for cases


def case_package(case_seed: int, idx: int, corpus_every: int = 0) -> dict:
    """Deterministic choice of the workload package of a case."""
    if corpus_every and idx % corpus_every == corpus_every - 1:
        name = workload.CORPUS[(idx // corpus_every + case_seed) % len(workload.CORPUS)]
        return workload.corpus_package(name, runner.repo_dir())
    if idx % 13 == 7:
        from . import shapes

        return shapes.shape_package(idx // 13 + case_seed)
    if idx % 11 == 5:
        return workload.two_package_container(H(case_seed, "pkg") % (2**40), spread=False)
    if idx % 11 == 9:
        return workload.two_package_container(H(case_seed, "pkg") % (2**40), spread=True)
    if idx % 22 == 13:
        return workload.two_package_container(H(case_seed, "pkg") % (2**40), spread="uneven")
    return workload.generate_package(H(case_seed, "pkg"))


# --------------------------------------------------------------------------- running cases


def run_histories(tag: str, pkg: dict, options: dict, histories: list[list[dict]], parallel: int = 1,
                  timeout: float = 180.0) -> list[list[dict]]:
    """Each history in its own sandbox.  Results are in input order whatever `parallel` is."""
    if parallel <= 1 or len(histories) <= 1:
        return [runner.run_history(f"{tag}h{i}", pkg, options, h, timeout) for i, h in enumerate(histories)]
    with ThreadPoolExecutor(max_workers=min(parallel, len(histories))) as ex:
        futs = [ex.submit(runner.run_history, f"{tag}h{i}", pkg, options, h, timeout) for i, h in enumerate(histories)]
        return [f.result() for f in futs]


def run_batch(cases: list[dict], run_case, workers: int | None = None, progress: str = "") -> list:  # noqa: ANN001
    """run_case(case) -> verdict for all cases, `workers` at a time; verdicts in case order."""
    workers = workers or runner.workers_default()
    t0 = time.monotonic()
    done = [0]
    out: list = [None] * len(cases)

    def wrapped(i: int) -> object:
        try:
            v = run_case(cases[i])
        except Exception as e:  # noqa: BLE001
            import traceback

            v = {"harness_error": "".join(traceback.format_exception(e))[-3000:]}
        done[0] += 1
        if progress and done[0] % max(1, len(cases) // 10) == 0:
            log(f"[{progress}] {done[0]}/{len(cases)} cases, {time.monotonic() - t0:.0f}s")
        return v

    with ThreadPoolExecutor(max_workers=workers) as ex:
        futs = [ex.submit(wrapped, i) for i in range(len(cases))]
        for i, f in enumerate(futs):
            out[i] = f.result()
    return out


# --------------------------------------------------------------------------- tree comparison helpers


def output_files(tree: dict) -> dict:
    """The files that are *output* in the sense of the properties: everything under the out directory
    except what mypy leaves in a .mypy_cache directory when cwd happens to be the out directory."""
    res = {}
    for rel, ent in tree.items():
        if "sha" not in ent:
            continue
        if ".mypy_cache" in rel.split("/"):
            continue
        res[rel] = ent
    return res


def first_difference(a: dict, b: dict) -> dict | None:
    """First differing path between two output-file maps, with a short unified diff."""
    fa, fb = output_files(a), output_files(b)
    only_a = sorted(set(fa) - set(fb))
    only_b = sorted(set(fb) - set(fa))
    if only_a or only_b:
        return {"kind": "path-set", "only_in_first": only_a[:10], "only_in_second": only_b[:10]}
    for rel in sorted(fa):
        if fa[rel]["sha"] != fb[rel]["sha"]:
            ta = fa[rel].get("data", b"").decode("utf-8", "replace").splitlines()
            tb = fb[rel].get("data", b"").decode("utf-8", "replace").splitlines()
            d = [ln for ln in difflib.unified_diff(ta, tb, "first", "second", lineterm="", n=1)][:24]
            return {"kind": "content", "path": rel, "diff": d}
    return None


def all_differences(a: dict, b: dict) -> list[str]:
    fa, fb = output_files(a), output_files(b)
    diffs = sorted(set(fa) ^ set(fb))
    diffs += [rel for rel in sorted(set(fa) & set(fb)) if fa[rel]["sha"] != fb[rel]["sha"]]
    return diffs


def io_signature(step_res: dict) -> str:
    """Distinctness measure of a run: the sequence of (op, relpath) mutation events under out
    plus the hash-seed class.  Two runs with equal signatures did the same I/O in the same order."""
    evs = [(e.get("op"), e.get("path")) for e in step_res.get("event_log", []) if e.get("op") in ("open", "mkdir", "os_open")]
    return H(evs, step_res.get("sigma", {}).get("hashseed", 0) % 4).__format__("x")


def stub_write_order(step_res: dict) -> tuple:
    return tuple(e.get("path") for e in step_res.get("event_log", []) if e.get("op") == "open" and str(e.get("path", "")).endswith(".sdsstub"))


def nontrivial(step_res: dict) -> bool:
    stubs = [p for p in output_files(step_res.get("out_tree", {})) if p.endswith(".sdsstub")]
    return len(stubs) >= 2


def selector_for(e: dict) -> dict:
    """Structural fault selector for an event of a reference run (robust against small shifts of the
    global event numbering, e.g. when a changed tool drops or adds a call)."""
    op = e.get("op")
    if op == "write":
        return {"op": "write", "file": e.get("file"), "wn": e.get("wn")}
    if op == "close":
        return {"op": "close", "file": e.get("file")}
    return {"op": op, "n": e.get("n")}


def file_class(path: str, mode: str) -> str:
    if path.endswith("__api.json"):
        return "api_json"
    if not path.endswith(".sdsstub"):
        return "other"
    if "a" in mode:
        return "placeholder_append"
    parts = path.split("/")
    # module stubs and placeholders live in <module path>/<module>.sdsstub, re-export stubs directly in the package dir
    if len(parts) >= 2 and parts[-1][: -len(".sdsstub")] == parts[-2].lstrip("_"):
        return "module_or_placeholder_stub"
    return "reexport_stub"


FAULT_OPS = ("mkdir", "os_open", "utime", "open", "write", "close", "replace", "rename", "unlink")


def fault_strata(ref_events: list[dict]) -> dict[str, list[dict]]:
    """{file class: [ {path, events:{op:[events]}} ]} over the writable files of a reference run.  The mkdir
    events that really created an ancestor directory of a file are attributed to the first file below them."""
    files: dict[int, dict] = {}
    order: list[int] = []
    by_path_latest: dict[str, int] = {}
    pending_touch: dict[str, list] = {}
    pending_mkdirs: list[dict] = []
    for e in ref_events:
        op = e.get("op")
        if op == "mkdir":
            pending_mkdirs.append(e)
        elif op in ("utime", "os_open"):
            pending_touch.setdefault(e.get("path"), []).append(e)
        elif op == "open":
            k = e.get("file")
            files[k] = {"path": e.get("path"), "mode": str(e.get("mode", "")), "events": {"open": [e]}}
            order.append(k)
            by_path_latest[e.get("path")] = k
            for t in pending_touch.pop(e.get("path"), []):
                files[k]["events"].setdefault(t["op"], []).append(t)
            mine = [m for m in pending_mkdirs if str(e.get("path", "")).startswith(str(m.get("path")) + "/")]
            for m in mine:
                files[k]["events"].setdefault("mkdir", []).append(m)
                pending_mkdirs.remove(m)
        elif op in ("write", "close") and e.get("file") in files:
            files[e["file"]]["events"].setdefault(op, []).append(e)
        elif op in ("replace", "rename", "unlink", "remove") and e.get("path") in by_path_latest:
            # a file this run wrote is renamed / removed afterwards (write-to-temporary-then-rename protocols)
            files[by_path_latest[e["path"]]]["events"].setdefault("unlink" if op == "remove" else op, []).append(e)
    strata: dict[str, list[dict]] = {}
    for k in order:
        f = files[k]
        strata.setdefault(file_class(str(f["path"]), f["mode"]), []).append(f)
    return strata


def pick_fault_event(r, strata: dict[str, list[dict]]) -> dict | None:  # noqa: ANN001
    """Stratified choice: file class (the API file weighted up: it is the one large, buffered write), then a
    file of that class, then a step of its life cycle; for writes the first, a middle or the last one."""
    classes = sorted(strata)  # incl. "other": files that are neither stubs nor the API file (temporary files, lock files ...)
    if not classes:
        return None
    weights = [3.0 if c == "api_json" else 1.0 for c in classes]
    cls = r.choices(classes, weights=weights)[0]
    f = r.choice(strata[cls])
    ops = [op for op in FAULT_OPS if f["events"].get(op)]
    if not ops:
        return None
    op = r.choice(ops)
    evs = f["events"][op]
    if op == "write":
        which = r.choice(["first", "mid", "last"])
        return evs[0] if which == "first" else (evs[-1] if which == "last" else r.choice(evs))
    return r.choice(evs)


def pick_fault_event_for_op(r, strata: dict[str, list[dict]], op: str) -> dict | None:  # noqa: ANN001
    """Like pick_fault_event, but the life-cycle step is given (used to cover every (op, kind) pair in a batch)."""
    cands = [(cls, f) for cls in sorted(strata) for f in strata[cls] if f["events"].get(op)]
    if not cands:
        return None
    weights = [1.0 / max(1, len(strata[cls])) for cls, _f in cands]  # uniform over file classes, then over files
    _cls, f = r.choices(cands, weights=weights)[0]
    evs = f["events"][op]
    if op == "write":
        which = r.choice(["first", "mid", "last"])
        return evs[0] if which == "first" else (evs[-1] if which == "last" else r.choice(evs))
    return r.choice(evs)


# --------------------------------------------------------------------------- known findings


def load_known() -> dict:
    """Parse KNOWN_FINDINGS.txt: 'finding: property=C08 id=K1 match={json} <text>' and 'fixed: ...' lines."""
    res: dict = {"findings": [], "fixed": []}
    try:
        with open(KNOWN_FILE, encoding="utf-8") as f:
            for line in f:
                line = line.strip()
                if not line or line.startswith("#"):
                    continue
                if line.startswith("finding:"):
                    rest = line[len("finding:") :].strip()
                    fields: dict = {}
                    while True:
                        head, _, tail = rest.partition(" ")
                        if "=" in head and not head.startswith("match="):
                            k, _, v = head.partition("=")
                            fields[k] = v
                            rest = tail
                        else:
                            break
                    if rest.startswith("match="):
                        dec = json.JSONDecoder()
                        obj, end = dec.raw_decode(rest[len("match=") :])
                        fields["match"] = obj
                        fields["text"] = rest[len("match=") + end :].strip()
                    else:
                        fields["match"] = {}
                        fields["text"] = rest
                    res["findings"].append(fields)
                elif line.startswith("fixed:"):
                    res["fixed"].append(line)
    except FileNotFoundError:
        pass
    return res


# --------------------------------------------------------------------------- replay + evidence files


def _jsonable_tree(tree: dict) -> dict:
    return {k: {kk: vv for kk, vv in v.items() if kk != "data"} for k, v in tree.items()}


def write_replay(prop: str, case: dict, violation: dict, histories: list[list[dict]], minimised: bool) -> str:
    d = os.path.join(REPLAY_DIR, prop)
    os.makedirs(d, exist_ok=True)
    path = os.path.join(d, f"{case['case_seed']:016x}-{violation['class']}.json")
    pkg = case["pkg"]
    doc = {
        "property": prop,
        "verif_seed": case.get("verif_seed"),
        "case_seed": case["case_seed"],
        "violation_class": violation["class"],
        "package": {"files": pkg["files"], "src_rel": pkg["src_rel"], "name": pkg.get("name"), "features": pkg.get("features"),
                    "doc_style": pkg.get("doc_style"), "meta": pkg.get("meta", {})},
        "options": case["options"],
        "histories": histories,
        "params": case.get("params", {}),
        "observed": violation.get("detail"),
        "repo_commit": repo_commit(),
        "minimised": minimised,
    }
    with open(path, "w", encoding="utf-8") as f:
        json.dump(doc, f, indent=1, sort_keys=True, default=str)
    return path


def repo_commit() -> str:
    import subprocess

    try:
        return subprocess.run(["git", "-C", runner.repo_dir(), "rev-parse", "HEAD"], capture_output=True, text=True, check=False).stdout.strip()  # noqa: S603, S607
    except OSError:
        return ""


def write_evidence(prop: str, tier: str, seed: int, coverage: dict, wall: float, violations: int, assumptions: list[str],
                   level: str = "exploration") -> str:
    os.makedirs(EVIDENCE_DIR, exist_ok=True)
    path = os.path.join(EVIDENCE_DIR, f"{prop}.json")
    doc = {
        "property_id": prop,
        "tier": tier,
        "seed": seed,
        "level": level,
        "coverage": coverage,
        "assumptions": assumptions,
        "wall_s": round(wall, 2),
        "violations": violations,
    }
    tmp = path + ".tmp"
    with open(tmp, "w", encoding="utf-8") as f:
        json.dump(doc, f, indent=1, sort_keys=True, default=str)
    os.replace(tmp, path)
    if tier == "thorough":
        # the quick tier rewrites <id>.json on every run; keep the last thorough result next to it
        import shutil

        shutil.copyfile(path, os.path.join(EVIDENCE_DIR, f"{prop}.thorough.json"))
    return path


COMPONENTS = {
    "real": [
        "all of safeds_stubgen (CLI/argparse, get_api, AST walker/visitor, docstring parsers, stub generator, file creation)",
        "mypy build (real parse + type check of the sandbox package)",
        "griffe load / docstring parsing",
        "pathlib / json / the kernel's tmpfs",
    ],
    "wrapped": [
        "os.scandir / os.listdir (order only)",
        "io.open / builtins.open / os.open / os.mkdir / os.utime / os.rename / os.replace / os.unlink / os.rmdir (event log + fault injection)",
        "safeds_stubgen Module.__hash__ (seeded per-object value instead of the address)",
        "time.time (event counter)",
        "process environment, umask, cwd, argv, sys.path[0], PYTHONHASHSEED",
    ],
    "stubbed": [],
}
