"""Child process of the simulator: one simulated run of the real tool (layer E) or one
component history on live objects (layer C), with every seam of DESIGN §1.1/§3.3 installed
*before* safeds_stubgen, mypy or griffe are imported.

Usage: python child.py <job.json>

Only the standard library is used here.  The child never draws random numbers: every
permutation and every fault is a pure function of the job file.
"""
from __future__ import annotations

import builtins
import errno as _errno
import hashlib
import io
import json
import os
import sys
import time
import traceback

_real_open = io.open
_real_os_open = os.open
_real_os_write = os.write
_real_os_close = os.close
_real_mkdir = os.mkdir
_real_scandir = os.scandir
_real_listdir = os.listdir
_real_utime = os.utime
_real_rename = os.rename
_real_replace = os.replace
_real_unlink = os.unlink
_real_remove = os.remove
_real_rmdir = os.rmdir
_real_realpath = os.path.realpath
_real_exit = os._exit

JOB: dict = {}
STATE = {
    "seq": 0,            # mutation event counter
    "op_count": {},      # per-op counters
    "file_count": 0,     # writable opens so far
    "fired": [],         # fault-plan entries that fired
    "events_fd": -1,
    "listings": 0,
    "hash_counter": 0,
    "time_counter": 0,
    "active": False,     # seams only act while the system under test runs
}


def _h64(*parts: object) -> int:
    m = hashlib.sha256()
    for p in parts:
        m.update(repr(p).encode())
        m.update(b"\x1f")
    return int.from_bytes(m.digest()[:8], "big")


# --------------------------------------------------------------------------- paths


def _canon(path: object) -> str | None:
    """Canonical absolute path (symlinks resolved, POSIX' special leading '//' collapsed)."""
    if isinstance(path, int):
        return None
    try:
        p = os.fspath(path)  # type: ignore[arg-type]
    except TypeError:
        return None
    if isinstance(p, bytes):
        p = os.fsdecode(p)
    if not os.path.isabs(p):
        p = os.path.join(os.getcwd(), p)
    while p.startswith("//"):
        p = p[1:]
    # resolve the parent, keep the last component (it may not exist yet / may be a link target we create)
    head, tail = os.path.split(p.rstrip("/") or "/")
    return os.path.join(_real_realpath(head), tail) if tail else _real_realpath(head)


def _rel(canon: str | None) -> str | None:
    """Path relative to the sandbox root, or None when outside the sandbox."""
    if canon is None:
        return None
    root = JOB["sandbox_root"]
    if canon == root:
        return "."
    if canon.startswith(root + "/"):
        return canon[len(root) + 1 :]
    return None


# --------------------------------------------------------------------------- event log + faults


def _emit(ev: dict) -> None:
    fd = STATE["events_fd"]
    if fd >= 0:
        _real_os_write(fd, (json.dumps(ev, sort_keys=True) + "\n").encode())


def _next_event(op: str, rel: str, **extra: object) -> dict:
    STATE["seq"] += 1
    n = STATE["op_count"].get(op, 0) + 1
    STATE["op_count"][op] = n
    ev = {"seq": STATE["seq"], "op": op, "n": n, "path": rel}
    ev.update(extra)
    return ev


def _match_fault(ev: dict) -> dict | None:
    """Return the first not-yet-fired fault whose selector matches this event."""
    for i, f in enumerate(JOB.get("faults", [])):
        if i in STATE["fired_idx"]:
            # a persistent condition (disk stays full, directory stays read-only): every later operation of the
            # classes that condition affects fails too
            if f.get("sticky") and ev["op"] in _STICKY_OPS.get(f["kind"].split("_")[0], ()) and "crash" not in f["kind"]:
                STATE["sticky_hits"] = STATE.get("sticky_hits", 0) + 1
                return {"sel": f["sel"], "kind": f["kind"].split("_")[0] + "_" + ev["op"], "sticky_repeat": True}
            continue
        sel = f["sel"]
        if "event" in sel:
            if sel["event"] != ev["seq"]:
                continue
        else:
            if sel.get("op") != ev["op"]:
                continue
            if "n" in sel and sel["n"] != ev["n"]:
                continue
            if "file" in sel and sel["file"] != ev.get("file"):
                continue
            if "wn" in sel and sel["wn"] != ev.get("wn"):
                continue
            if "suffix" in sel and not ev["path"].endswith(sel["suffix"]):
                continue
        STATE["fired_idx"].add(i)
        STATE["fired"].append({"index": i, "kind": f["kind"], "seq": ev["seq"], "op": ev["op"], "path": ev["path"]})
        return f
    return None


_ERRNOS = {
    "enospc": _errno.ENOSPC,
    "eacces": _errno.EACCES,
    "erofs": _errno.EROFS,
    "eio": _errno.EIO,
    "edquot": _errno.EDQUOT,
    "emfile": _errno.EMFILE,
}


_STICKY_OPS = {
    "enospc": ("mkdir", "os_open", "write", "close"),
    "edquot": ("mkdir", "os_open", "write", "close"),
    "eio": ("write", "close"),
    "eacces": ("mkdir", "open", "os_open", "utime"),
    "erofs": ("mkdir", "open", "os_open", "utime"),
    "emfile": ("open", "os_open"),
}


class InjectedOSError(OSError):
    """An OSError raised by the simulator; identified by identity, not by errno."""


class InjectedInterrupt(KeyboardInterrupt):
    """Ctrl-C / SIGINT delivered while the tool is inside an I/O call."""


def _make_error(kind: str, path: str, seq: int) -> BaseException:
    if kind.startswith("interrupt"):
        e = InjectedInterrupt(f"[injected interrupt at event {seq}]")
        e._vsim_injected = seq  # type: ignore[attr-defined]
        STATE["injected_errors"].append(e)
        return e
    return _make_os_error(kind, path, seq)


def _make_os_error(kind: str, path: str, seq: int) -> OSError:
    code = _ERRNOS[kind.split("_")[0]]
    if kind.endswith(("_write", "_write_short", "_close", "_flush")):
        # as from the real write(2)/close(2): the error of an operation on an open descriptor names no file
        e = InjectedOSError(code, os.strerror(code) + " [injected]")
    else:
        e = InjectedOSError(code, os.strerror(code) + " [injected]", path)
    e._vsim_injected = seq  # type: ignore[attr-defined]
    STATE["injected_errors"].append(e)
    return e


def _die() -> None:
    fd = STATE["events_fd"]
    if fd >= 0:
        _real_os_write(fd, b'{"op":"_died"}\n')
    _real_exit(137)


def _apply_fault_pre(ev: dict, path_for_error: str) -> dict | None:
    """Log the event, apply a matching non-write fault. Returns the fault (for write handling) or None."""
    f = _match_fault(ev)
    if f is not None:
        ev["fault"] = f["kind"]
    _emit(ev)
    if f is None:
        return None
    kind = f["kind"]
    if kind == "crash":
        _die()
    if kind in ("torn_crash",) or kind.endswith("_write_short"):
        return f  # handled by the write path
    raise _make_error(kind, path_for_error, ev["seq"])


def _cwd_erofs_check(canon: str | None, op: str) -> None:
    ro = JOB.get("readonly_dirs") or []
    if canon is None:
        return
    for d in ro:
        if canon == d or canon.startswith(d + "/"):
            rel = _rel(canon) or canon
            ev = _next_event(op, rel, fault="readonly_dir")
            STATE["readonly_hits"] += 1
            _emit(ev)
            e = InjectedOSError(_errno.EROFS, os.strerror(_errno.EROFS) + " [injected readonly dir]", canon)
            e._vsim_injected = ev["seq"]  # type: ignore[attr-defined]
            e._vsim_readonly = True  # type: ignore[attr-defined]
            STATE["injected_errors"].append(e)
            raise e


# --------------------------------------------------------------------------- mutation seam


class _FileProxy:
    """Proxy around a writable file object: write/flush/close are events and fault points."""

    def __init__(self, real: object, rel: str, index: int, canon: str, mode: str) -> None:
        object.__setattr__(self, "_real", real)
        object.__setattr__(self, "_rel", rel)
        object.__setattr__(self, "_index", index)
        object.__setattr__(self, "_canon", canon)
        object.__setattr__(self, "_mode", mode)
        object.__setattr__(self, "_wn", 0)
        object.__setattr__(self, "_nbytes", 0)
        object.__setattr__(self, "_sha", hashlib.sha256())
        object.__setattr__(self, "_closed_logged", False)

    def __getattr__(self, name: str) -> object:
        return getattr(self._real, name)

    def __setattr__(self, name: str, value: object) -> None:
        setattr(self._real, name, value)

    def __iter__(self):  # noqa: ANN204
        return iter(self._real)

    def __enter__(self):  # noqa: ANN204
        return self

    def __exit__(self, *exc: object) -> None:
        self.close()

    def write(self, data):  # noqa: ANN001, ANN201
        object.__setattr__(self, "_wn", self._wn + 1)
        raw = data.encode("utf-8", "surrogatepass") if isinstance(data, str) else bytes(data)
        ev = _next_event("write", self._rel, file=self._index, wn=self._wn, nbytes=len(raw))
        f = _apply_fault_pre(ev, self._canon)
        if f is not None:
            # short write: a prefix really reaches the kernel, then the error / the death
            part = data[: len(data) // 2]
            if part:
                self._real.write(part)
                self._sha.update(part.encode("utf-8", "surrogatepass") if isinstance(part, str) else bytes(part))
            self._real.flush()
            if f["kind"] == "torn_crash":
                _die()
            raise _make_error(f["kind"], self._canon, ev["seq"])
        n = self._real.write(data)
        self._sha.update(raw)
        object.__setattr__(self, "_nbytes", self._nbytes + len(raw))
        return n

    def writelines(self, lines):  # noqa: ANN001, ANN201
        for line in lines:
            self.write(line)

    def flush(self) -> None:
        self._real.flush()

    def close(self) -> None:
        if self._closed_logged:
            self._real.close()
            return
        object.__setattr__(self, "_closed_logged", True)
        ev = _next_event(
            "close", self._rel, file=self._index, nbytes=self._nbytes, sha=self._sha.hexdigest(), mode=self._mode,
        )
        try:
            # a crash here loses whatever still sits in user-space buffers (real process death)
            _apply_fault_pre(ev, self._canon)
        except (OSError, KeyboardInterrupt):
            # close() reporting an error: the descriptor is released all the same
            try:
                self._real.close()
            except Exception:  # noqa: BLE001
                pass
            raise
        self._real.close()


def _proxy_del(self) -> None:  # noqa: ANN001
    """A writable file that is dropped without close(): CPython's finaliser flushes and closes it and
    SWALLOWS any error.  We model that: the implicit close is an event and a fault point; an error
    planned for this close loses the buffered tail silently (nothing is raised)."""
    try:
        if self._closed_logged or not STATE["active"]:
            return
        object.__setattr__(self, "_closed_logged", True)
        ev = _next_event(
            "close", self._rel, file=self._index, nbytes=self._nbytes, sha=self._sha.hexdigest(), mode=self._mode, implicit=True,
        )
        f = _match_fault(ev)
        if f is not None:
            ev["fault"] = f["kind"]
        _emit(ev)
        if f is None:
            return
        if f["kind"] == "crash":
            _die()
        # the error surfaces inside the finaliser: the data still buffered in user space never reaches the disk
        real = self._real
        real.flush()
        size = os.fstat(real.fileno()).st_size
        lost = min(size, 4096) if size else 0
        if lost:
            os.ftruncate(real.fileno(), size - max(1, lost // 2))
        real.close()
    except BaseException:  # noqa: BLE001
        pass


_FileProxy.__del__ = _proxy_del  # type: ignore[attr-defined]


def _is_write_mode(mode: str) -> bool:
    return any(c in mode for c in "wax+")


def _open_wrapper(file, mode="r", *args, **kwargs):  # noqa: ANN001, ANN002, ANN003, ANN201
    if not STATE["active"] or not isinstance(mode, str) or not _is_write_mode(mode):
        return _real_open(file, mode, *args, **kwargs)
    canon = _canon(file)
    rel = _rel(canon)
    _cwd_erofs_check(canon, "open")
    if rel is None:
        if canon is not None and not canon.startswith(("/dev/", "/proc/")):
            _emit({"op": "outside", "path": canon, "mode": mode})  # something is written outside the sandbox
        return _real_open(file, mode, *args, **kwargs)
    STATE["file_count"] += 1
    index = STATE["file_count"]
    existed = os.path.lexists(canon)
    ev = _next_event("open", rel, file=index, mode=mode, existed=existed)
    _apply_fault_pre(ev, canon)
    real = _real_open(file, mode, *args, **kwargs)
    return _FileProxy(real, rel, index, canon, mode)


def _os_open_wrapper(path, flags, mode=0o777, *, dir_fd=None):  # noqa: ANN001, ANN201
    writable = flags & (os.O_WRONLY | os.O_RDWR | os.O_CREAT | os.O_TRUNC | os.O_APPEND)
    if not STATE["active"] or not writable or dir_fd is not None:
        return _real_os_open(path, flags, mode) if dir_fd is None else _real_os_open(path, flags, mode, dir_fd=dir_fd)
    canon = _canon(path)
    rel = _rel(canon)
    _cwd_erofs_check(canon, "os_open")
    if rel is None:
        return _real_os_open(path, flags, mode)
    ev = _next_event("os_open", rel, flags=int(flags), existed=os.path.lexists(canon))
    _apply_fault_pre(ev, canon)
    return _real_os_open(path, flags, mode)


def _mkdir_wrapper(path, mode=0o777, *, dir_fd=None):  # noqa: ANN001, ANN201
    if not STATE["active"] or dir_fd is not None:
        return _real_mkdir(path, mode) if dir_fd is None else _real_mkdir(path, mode, dir_fd=dir_fd)
    canon = _canon(path)
    rel = _rel(canon)
    _cwd_erofs_check(canon, "mkdir")
    if rel is None:
        return _real_mkdir(path, mode)
    existed = os.path.lexists(canon)
    viable = not existed and os.path.isdir(os.path.dirname(canon))
    ev = _next_event("mkdir" if viable else "mkdir_noop", rel, existed=existed)
    if viable:
        # only a mkdir that would really create something is a fault point: one that fails with
        # EEXIST/ENOENT anyway (pathlib probes like that) tests nothing
        _apply_fault_pre(ev, canon)
    else:
        _emit(ev)
    return _real_mkdir(path, mode)


def _simple_mutation(op: str, real):  # noqa: ANN001, ANN202
    def wrapper(path, *args, **kwargs):  # noqa: ANN001, ANN002, ANN003, ANN202
        if STATE["active"]:
            canon = _canon(path)
            rel = _rel(canon)
            _cwd_erofs_check(canon, op)
            if rel is not None:
                ev = _next_event(op, rel)
                _apply_fault_pre(ev, canon or "")
        return real(path, *args, **kwargs)

    wrapper.__name__ = getattr(real, "__name__", op)
    return wrapper


# --------------------------------------------------------------------------- enumeration seam


def _permute(names: list, key, dirpath: str) -> list:  # noqa: ANN001
    cfg = JOB.get("enum") or {"mode": "sorted"}
    items = sorted(names, key=key)
    mode = cfg.get("mode", "sorted")
    if mode == "sorted":
        return items
    if mode == "reversed":
        return items[::-1]
    # random: per-directory permutation keyed by the directory's sandbox-relative path (not by call order)
    rel = _rel(dirpath)
    tag = rel if rel is not None else dirpath
    seed = cfg.get("seed", 0)
    return sorted(items, key=lambda it: _h64(seed, tag, key(it)))


class _ScandirProxy:
    def __init__(self, real_it, entries: list) -> None:  # noqa: ANN001
        self._real_it = real_it
        self._entries = iter(entries)

    def __iter__(self):  # noqa: ANN204
        return self

    def __next__(self):  # noqa: ANN204
        return next(self._entries)

    def __enter__(self):  # noqa: ANN204
        return self

    def __exit__(self, *exc: object) -> None:
        self.close()

    def close(self) -> None:
        self._real_it.close()


def _scandir_wrapper(path=None):  # noqa: ANN001, ANN201
    if path is None:
        real_it = _real_scandir()
        dirpath = os.getcwd()
    else:
        real_it = _real_scandir(path)
        dirpath = None if isinstance(path, int) else os.fspath(path)
    if not STATE["active"] or dirpath is None:
        return real_it
    if isinstance(dirpath, bytes):
        return real_it
    entries = list(real_it)
    STATE["listings"] += 1
    canon = _real_realpath(dirpath)
    return _ScandirProxy(real_it, _permute(entries, lambda e: e.name, canon))


def _listdir_wrapper(path=None):  # noqa: ANN001, ANN201
    names = _real_listdir() if path is None else _real_listdir(path)
    if not STATE["active"] or isinstance(path, int | bytes):
        return names
    STATE["listings"] += 1
    dirpath = os.getcwd() if path is None else os.fspath(path)
    if isinstance(dirpath, bytes):
        return names
    return _permute(list(names), lambda n: n, _real_realpath(dirpath))


# --------------------------------------------------------------------------- other seams


def _fake_time() -> float:
    STATE["time_counter"] += 1
    return 1_700_000_000.0 + STATE["time_counter"] * 0.001


def install_seams() -> None:
    io.open = _open_wrapper  # type: ignore[assignment]
    builtins.open = _open_wrapper  # type: ignore[assignment]
    os.open = _os_open_wrapper  # type: ignore[assignment]
    os.mkdir = _mkdir_wrapper  # type: ignore[assignment]
    os.scandir = _scandir_wrapper  # type: ignore[assignment]
    os.listdir = _listdir_wrapper  # type: ignore[assignment]
    os.utime = _simple_mutation("utime", _real_utime)  # type: ignore[assignment]
    os.rename = _simple_mutation("rename", _real_rename)  # type: ignore[assignment]
    os.replace = _simple_mutation("replace", _real_replace)  # type: ignore[assignment]
    os.unlink = _simple_mutation("unlink", _real_unlink)  # type: ignore[assignment]
    os.remove = _simple_mutation("remove", _real_remove)  # type: ignore[assignment]
    os.rmdir = _simple_mutation("rmdir", _real_rmdir)  # type: ignore[assignment]
    time.time = _fake_time  # type: ignore[assignment]


class VsimLivelock(BaseException):
    """Raised by the livelock probe: the docstring parser's load-retry loop reached a fix-point."""


def install_livelock_probe() -> str:
    """DocstringParser.__init__ retries `load(path)` with path.parent on KeyError; at '/' that loop never
    exits.  Two consecutive load calls with the same first argument are a livelock."""
    try:
        import safeds_stubgen.docstring_parsing._docstring_parser as dp
    except Exception:  # noqa: BLE001
        return "unavailable"
    real = getattr(dp, "load", None)
    if real is None or not callable(real):
        return "unavailable"
    last = {"arg": None, "n": 0}

    def load_probe(*args, **kwargs):  # noqa: ANN002, ANN003, ANN202
        key = str(args[0]) if args else str(kwargs.get("objspec"))
        if STATE["active"]:
            if key == last["arg"]:
                last["n"] += 1
                if last["n"] >= 3:
                    raise VsimLivelock(f"load() retried {last['n']} times with the same argument {key!r}")
            else:
                last["arg"], last["n"] = key, 0
        return real(*args, **kwargs)

    dp.load = load_probe
    return "installed"


def install_module_hash_seam() -> bool:
    """Replace the identity hash of safeds_stubgen's Module objects by a seeded per-object value."""
    try:
        from safeds_stubgen.api_analyzer._api import Module
    except Exception:  # noqa: BLE001
        return False
    cfg = JOB.get("obj") or {"mode": "counter"}
    mode = cfg.get("mode", "counter")
    seed = cfg.get("seed", 0)
    if "__eq__" in Module.__dict__ or "__hash__" in Module.__dict__:
        # the repo gave Module value semantics: nothing address-dependent left to control
        return False

    def _module_hash(self) -> int:  # noqa: ANN001
        v = self.__dict__.get("_vsim_hash")
        if v is None:
            STATE["hash_counter"] += 1
            n = STATE["hash_counter"]
            if mode == "counter":
                v = n
            elif mode == "reversed":
                v = (1 << 40) - n
            else:
                v = _h64(seed, n) >> 2
            self.__dict__["_vsim_hash"] = v
        return v

    Module.__hash__ = _module_hash  # type: ignore[method-assign, assignment]
    return True


# --------------------------------------------------------------------------- reporting


def _exc_info(exc: BaseException, repo_src: str) -> dict:
    frames = []
    tb = exc.__traceback__
    for fs in traceback.extract_tb(tb):
        frames.append([fs.filename, fs.name, fs.lineno])
    pkg_dir = os.path.join(repo_src, "safeds_stubgen") + os.sep
    tool_frames = [f for f in frames if f[0].startswith(pkg_dir)]
    innermost = frames[-1] if frames else None
    innermost_tool = tool_frames[-1] if tool_frames else None
    injected = getattr(exc, "_vsim_injected", None)
    is_injected_identity = any(exc is e for e in STATE["injected_errors"])
    # walk the context chain for an injected error that was swallowed and replaced
    chain = []
    seen = set()
    cur: BaseException | None = exc
    via = "self"
    while cur is not None and id(cur) not in seen:
        seen.add(id(cur))
        chain.append(
            {
                "type": type(cur).__name__,
                "injected": any(cur is e for e in STATE["injected_errors"]),
                "via": via,
            },
        )
        via = "cause" if cur.__cause__ is not None else "context"
        cur = cur.__cause__ or cur.__context__
    return {
        "type": type(exc).__name__,
        "module": type(exc).__module__,
        "message": str(exc)[:2000].replace(JOB["sandbox_root"], "<SANDBOX>"),
        "errno": getattr(exc, "errno", None),
        "frames": [[f[0].replace(repo_src, "<REPO_SRC>"), f[1], f[2]] for f in frames[-25:]],
        "innermost": [innermost[0].replace(repo_src, "<REPO_SRC>"), innermost[1]] if innermost else None,
        "innermost_tool": [innermost_tool[0][len(repo_src) + 1 :], innermost_tool[1]] if innermost_tool else None,
        "innermost_is_tool": bool(innermost and innermost[0].startswith(pkg_dir)),
        "injected_seq": injected,
        "is_injected": is_injected_identity,
        "readonly": bool(getattr(exc, "_vsim_readonly", False)),
        "chain": chain,
    }


def _write_result(res: dict) -> None:
    path = JOB["result_path"]
    fd = _real_os_open(path + ".tmp", os.O_WRONLY | os.O_CREAT | os.O_TRUNC, 0o644)
    _real_os_write(fd, json.dumps(res).encode())
    _real_os_close(fd)
    _real_rename(path + ".tmp", path)


def main() -> int:
    global JOB
    with _real_open(sys.argv[1], "r", encoding="utf-8") as f:
        JOB = json.load(f)
    STATE["fired_idx"] = set()
    STATE["injected_errors"] = []
    STATE["readonly_hits"] = 0
    STATE["events_fd"] = _real_os_open(JOB["events_path"], os.O_WRONLY | os.O_CREAT | os.O_TRUNC, 0o644)

    repo_src = JOB["repo_src"]
    # sys.path: [0] models the invocation style; the repo under test comes next; the harness dir never stays
    sys.path[0] = JOB.get("sys_path0") or JOB["sandbox_root"] + "/bin"
    extra = JOB.get("extra_sys_path") or []
    sys.path[1:1] = [repo_src, *extra]
    os.umask(JOB.get("umask", 0o022))
    os.chdir(JOB["cwd"])

    install_seams()

    import logging

    records: list = []

    class _Capture(logging.Handler):
        def emit(self, record: logging.LogRecord) -> None:
            try:
                msg = record.getMessage()
            except Exception:  # noqa: BLE001
                msg = str(record.msg)
            records.append([record.levelname, msg.replace(JOB["sandbox_root"], "<SANDBOX>")])

    res: dict = {"kind": JOB.get("kind", "E"), "outcome": "harness_error"}
    try:
        import safeds_stubgen  # noqa: F401

        tool_file = os.path.dirname(os.path.abspath(safeds_stubgen.__file__))
        if not tool_file.startswith(os.path.abspath(repo_src)):
            res["error"] = f"safeds_stubgen imported from {tool_file}, expected under {repo_src}"
            _write_result(res)
            return 3
        res["module_hash_seam"] = install_module_hash_seam()
        res["livelock_probe"] = install_livelock_probe()
        root_logger = logging.getLogger()
        root_logger.addHandler(_Capture(level=logging.WARNING))

        if JOB.get("kind", "E") == "E":
            res.update(_run_layer_e())
        else:
            import importlib.util

            spec = importlib.util.spec_from_file_location("vsim_child_c", os.path.join(JOB["harness_dir"], "child_c.py"))
            mod = importlib.util.module_from_spec(spec)  # type: ignore[arg-type]
            sys.modules["vsim_child_c"] = mod
            spec.loader.exec_module(mod)  # type: ignore[union-attr]
            res.update(mod.run(JOB, STATE, sys.modules[__name__]))
    except BaseException as e:  # noqa: BLE001
        STATE["active"] = False
        res["outcome"] = "harness_error"
        res["error"] = "".join(traceback.format_exception(e))[-4000:]
    STATE["active"] = False
    res["log_records"] = records[:400]
    res["events"] = STATE["seq"]
    res["fired"] = STATE["fired"]
    res["readonly_hits"] = STATE["readonly_hits"]
    res["sticky_hits"] = STATE.get("sticky_hits", 0)
    res["listings"] = STATE["listings"]
    res["hashed_modules"] = STATE["hash_counter"]
    res["hashseed_env"] = os.environ.get("PYTHONHASHSEED")
    try:
        import mypy.version

        res["mypy_version"] = mypy.version.__version__
    except Exception:  # noqa: BLE001
        pass
    _write_result(res)
    return 0


def _run_layer_e() -> dict:
    """Run the real CLI entry point with the argv chosen by the simulator."""
    from safeds_stubgen.main import main as tool_main

    sys.argv = ["safe-ds-stubgen", *JOB["argv"]]
    out: dict = {}
    prelude = JOB.get("prelude_files")
    if prelude:
        # an earlier analysis of the same paths in this very process, while the files held other contents (seams off:
        # it is no part of the judged run); afterwards the files are restored and the output directory is removed
        import shutil

        saved = {}
        for path, text in prelude.items():
            with _real_open(path, encoding="utf-8", newline="") as f:
                saved[path] = f.read()
            with _real_open(path, "w", encoding="utf-8", newline="") as f:
                f.write(text)
        try:
            tool_main()
            out["prelude_outcome"] = "completed"
        except BaseException as e:  # noqa: BLE001
            out["prelude_outcome"] = f"{type(e).__name__}: {e}"[:200]
        for path, text in saved.items():
            with _real_open(path, "w", encoding="utf-8", newline="") as f:
                f.write(text)
        shutil.rmtree(JOB["out_dir"], ignore_errors=True)
    run_tool = tool_main
    if JOB.get("library_entry"):
        # library use: the function behind the command line is called with the paths exactly as they are spelled (the
        # command line resolves them first); the arguments are parsed by the tool's own parser
        try:
            from safeds_stubgen.api_analyzer.cli import _cli as _tool_cli

            _get_args, _run = _tool_cli._get_args, _tool_cli._run_stub_generator  # noqa: SLF001

            def run_tool() -> None:
                a = _get_args()
                _run(src_dir_path=a.src, out_dir_path=a.out, docstring_style=a.docstyle, is_test_run=a.testrun,
                     convert_identifiers=a.naming_convert, type_source_preference=a.type_source_preference,
                     type_source_warning=a.show_type_source_warning)

            out["library_entry"] = "used"
        except (ImportError, AttributeError):
            out["library_entry"] = "unavailable"  # the internals were renamed: fall back to the command line entry
    STATE["active"] = True
    try:
        run_tool()
        STATE["active"] = False
        out["outcome"] = "completed"
    except SystemExit as e:
        STATE["active"] = False
        out["outcome"] = "completed" if e.code in (0, None) else "usage_error"
        out["exit_code"] = e.code if isinstance(e.code, int) else 1
    except BaseException as e:  # noqa: BLE001
        STATE["active"] = False
        info = _exc_info(e, JOB["repo_src"])
        if isinstance(e, VsimLivelock):
            out["outcome"] = "livelock"
        elif isinstance(e, ValueError) and str(e) == "No files found to analyse.":
            out["outcome"] = "rejected"
        elif type(e).__name__ == "CompileError" and type(e).__module__.startswith("mypy"):
            out["outcome"] = "not_loadable"
        else:
            out["outcome"] = "failed"
        out["exception"] = info
    return out


if __name__ == "__main__":
    # run as a script: make the module importable under its own name for child_c
    sys.modules.setdefault("vsim_child", sys.modules[__name__])
    code = main()
    sys.stdout.flush()
    sys.stderr.flush()
    _real_exit(code)
