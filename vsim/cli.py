"""Command line of the checks (see /verif/check)."""
from __future__ import annotations

import argparse
import importlib
import os
import sys

PROPS = {"C08": "vsim.oracles.c08", "C16": "vsim.oracles.c16", "C10": "vsim.oracles.c10", "C01": "vsim.oracles.c01", "C13": "vsim.oracles.c13"}


def _load(prop: str):  # noqa: ANN202
    return importlib.import_module(PROPS[prop])


def main() -> int:
    if os.environ.get("PYTHONHASHSEED") != "0":
        # the harness itself must not depend on its own hash seed: pin it (children get theirs from the schedule)
        os.environ["PYTHONHASHSEED"] = "0"
        os.execv(sys.executable, [sys.executable, "-m", "vsim.cli", *sys.argv[1:]])  # noqa: S606
    ap = argparse.ArgumentParser(prog="check")
    ap.add_argument("what")
    ap.add_argument("arg", nargs="?")
    ap.add_argument("--tier", default=os.environ.get("VERIF_TIER", "quick"), choices=["quick", "thorough"])
    ap.add_argument("--cases", type=int, default=None)
    args = ap.parse_args()
    from . import checkmain

    if args.what == "replay":
        import json

        with open(args.arg, encoding="utf-8") as f:
            prop = json.load(f)["property"]
        return checkmain.replay_file(args.arg, {prop: _load(prop)})
    if args.what == "selftest":
        from . import selftest

        return selftest.main(args.arg or "determinism", args.tier)
    if args.what in PROPS:
        mod = _load(args.what)
        if hasattr(mod, "main"):
            return mod.main(args.tier, args.cases)
        return checkmain.run_check(mod, args.tier, args.cases)
    sys.stderr.write(f"unknown check {args.what}\n")
    return 2


if __name__ == "__main__":
    try:
        code = main()
    finally:
        import shutil

        from . import runner

        shutil.rmtree(runner._RUN_BASE, ignore_errors=True)  # os._exit below skips atexit handlers
    sys.stdout.flush()
    os._exit(code if isinstance(code, int) else 2)
