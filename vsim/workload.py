"""Workload: Python packages that drive the simulated runs.

Two sources (DESIGN §3.5): the repo's own test-data packages (corpus) and packages generated
from a small abstract model, swarm-style: each case enables a random subset of FEATURES.  The
generator is biased towards *ties and shared objects* (homonymous classes, one declaration
re-exported by two sibling packages, one private base inherited by several public classes,
Literal|None shared through inheritance, several classes of one foreign module ...) because
schedule- and history-dependence only shows where something is tied or shared.

The workload is a driver, not an oracle: no expected output is computed here.  `meta` only
records where the generator put unique docstring tokens and which classes are tie probes.
"""
from __future__ import annotations

import inspect
import os
import re

from .seeds import rng

_TOKEN_RE = re.compile(r"TK[MCFPRXAN][0-9]{4}Z")


def _runtime_text(source_text: str) -> str:
    """What a non-raw docstring literal with this source text evaluates to (only the escapes the generator emits)."""
    return source_text.replace("\\f", "\f").replace("\\v", "\v")

FEATURES = [
    "HOMONYMS",
    "TIE_REEXPORT",
    "ALIAS_REEXPORT",
    "STAR_REEXPORT",
    "MODULE_REEXPORT",
    "PRIVATE_BASE_2SUBS",
    "LITERAL_OPT",
    "FOREIGN_TYPES",
    "INFERRED_TUPLE_TIES",
    "TYPEVARS",
    "NESTED_CLASS",
    "PROPERTY",
    "STATIC_CLASSMETHOD",
    "VARARGS",
    "ENUM",
    "UNDERSCORE_TWIN",
    "TESTDIRS",
    "DOCS",
    "KEYWORD_NAMES",
    "SNAKE_NAMES",
    "UNICODE_DOC",
    "MEMBER_ACCESS",
    "DEEP_PACKAGE",
    "NAME_ECHO",
    "TRAILING_UNDERSCORE",
    "DOC_TYPE_MISMATCH",
    "INIT_DEFINED",
    "NC_PAIRS",
]

DOC_STYLES = ["PLAINTEXT", "NUMPYDOC", "GOOGLE", "REST"]

_FOREIGN = [
    ("decimal", "Decimal"),
    ("decimal", "Context"),
    ("fractions", "Fraction"),
    ("collections", "Counter"),
    ("collections", "OrderedDict"),
    ("datetime", "date"),
    ("datetime", "timedelta"),
    ("uuid", "UUID"),
]

# a library that lives next to the analysed package (resolved by the type checker, but not part of the package):
# classes in its __init__ (lower-case, CamelCase, underscore-prefixed) and in a sub-module whose name sorts between them
_SIBLING_FOREIGN = [
    ("numlib", "float64"),
    ("numlib", "ndarray"),
    ("numlib", "Matrix"),
    ("numlib.linalg", "LinAlgResult"),
    ("numlib.linalg", "solver_state"),
    ("otherlib.linalg", "Other"),
    ("numlib._core.array", "Scalar"),
    ("numlib.linalg._matrix", "DenseMatrix"),
]
_SIBLING_FILES = {
    "numlib/__init__.py": "class float64:\n    pass\n\n\nclass ndarray:\n    pass\n\n\nclass Matrix:\n    pass\n",
    "numlib/_core/__init__.py": "",
    "numlib/_core/array.py": "class Scalar:\n    pass\n",
    "numlib/linalg/__init__.py": "class LinAlgResult:\n    pass\n\n\nclass solver_state:\n    pass\n",
    "numlib/linalg/_matrix.py": "class DenseMatrix:\n    pass\n",
    "otherlib/__init__.py": "",
    "otherlib/linalg.py": "class Other:\n    pass\n",
}

_KEYWORDS = ["val", "out", "attr", "sub", "from_", "schema", "yield_", "union", "static", "segment"]

_BUILTIN_TYPES = ["int", "str", "bool", "float"]


class _Tokens:
    def __init__(self) -> None:
        self.n = 0
        self.table: dict[str, dict] = {}

    def new(self, kind: str, owner: str, name: str = "") -> str:
        self.n += 1
        tok = f"TK{kind}{self.n:04d}Z"
        self.table[tok] = {"kind": kind, "owner": owner, "name": name}
        return tok


class _Module:
    def __init__(self, pkg_path: str, name: str) -> None:
        self.pkg_path = pkg_path  # dotted package path, e.g. "mypkg.a"
        self.name = name
        self.imports: list[str] = []
        self.body: list[str] = []
        self.doc: str = ""
        self.public_classes: list[str] = []
        self.all_classes: list[str] = []
        self.functions: list[str] = []
        self.tail: list[str] = []

    @property
    def qname(self) -> str:
        return f"{self.pkg_path}.{self.name}"

    def add_import(self, line: str) -> None:
        if line not in self.imports:
            self.imports.append(line)

    def render(self) -> str:
        parts = []
        if self.doc:
            parts.append(self.doc)
        parts.append("from __future__ import annotations\n")
        if self.imports:
            parts.append("\n".join(self.imports) + "\n")
        parts.extend(self.body)
        parts.extend(self.tail)
        return "\n".join(parts).rstrip("\n") + "\n"


class PackageGenerator:
    def __init__(self, seed: int, features: list[str] | None = None, doc_style: str | None = None) -> None:
        self.r = rng("workload", seed)
        self.seed = seed
        if features is None:
            k = self.r.randint(3, 10)
            features = sorted(self.r.sample(FEATURES, k))
        self.features = set(features)
        self.doc_style = doc_style or self.r.choice(DOC_STYLES)
        self.tokens = _Tokens()
        self.modules: list[_Module] = []
        self.inits: dict[str, list[str]] = {}  # dotted package -> lines of its __init__.py
        self.extra_files: dict[str, str] = {}
        self.class_registry: list[tuple[str, str]] = []  # (module qname, class name) of importable public classes
        self.probes: dict = {"inherit_groups": [], "tie_reexports": [], "homonyms": [], "foreign": [], "aliases": {}}
        if "UNICODE_DOC" in self.features:
            self.features.add("DOCS")
        self.sibling_lib = "FOREIGN_TYPES" in self.features and self.r.random() < 0.6
        self.top = self.r.choice(["mypkg", "alphalib", "corelib"])
        if "SNAKE_NAMES" in self.features:
            self.top = self.r.choice(["my_pkg", "alpha_lib", "core_lib_x"])

    # ------------------------------------------------------------------ helpers
    def f(self, name: str) -> bool:
        return name in self.features

    def doc(self, indent: str, description: str, params: list[tuple[str, str, str]] | None = None,
            returns: tuple[str, str] | None = None, attrs: list[tuple[str, str, str]] | None = None,
            example: str | None = None, named_returns: list[tuple[str, str, str]] | None = None) -> str:
        """Render a docstring in the package's style.

        params/attrs: (name, type text, description); returns: (type text, description).
        """
        style = self.doc_style
        lines = [*description.split("\n"), ""]
        params = params or []
        attrs = attrs or []
        def ind(text: str, pad: str) -> list[str]:
            return [pad + ln for ln in text.split("\n")]

        if style == "NUMPYDOC":
            if params:
                lines += ["Parameters", "----------"]
                for n, t, d in params:
                    lines += [f"{n} : {t}" if t else n, *ind(d, "    ")]
                lines.append("")
            if attrs:
                lines += ["Attributes", "----------"]
                for n, t, d in attrs:
                    lines += [f"{n} : {t}" if t else n, *ind(d, "    ")]
                lines.append("")
            if named_returns:
                lines += ["Returns", "-------"]
                for n, t, d in named_returns:
                    lines += [f"{n} : {t}", f"    {d}"]
                lines.append("")
            elif returns:
                lines += ["Returns", "-------", f"{returns[0] or 'result'}", f"    {returns[1]}", ""]
            if example:
                lines += ["Examples", "--------", f">>> {example}", ""]
        elif style == "GOOGLE":
            if params:
                lines.append("Args:")
                for n, t, d in params:
                    dl = d.split("\n")
                    lines.append(f"    {n} ({t}): {dl[0]}" if t else f"    {n}: {dl[0]}")
                    lines += ["        " + x for x in dl[1:]]
                lines.append("")
            if attrs:
                lines.append("Attributes:")
                for n, t, d in attrs:
                    lines.append(f"    {n} ({t}): {d}" if t else f"    {n}: {d}")
                lines.append("")
            if returns:
                lines += ["Returns:", f"    {returns[0]}: {returns[1]}" if returns[0] else f"    {returns[1]}", ""]
            if example:
                lines += ["Examples:", f"    >>> {example}", ""]
        elif style == "REST":
            for n, t, d in params:
                dl = d.split("\n")
                lines.append(f":param {n}: {dl[0]}")
                lines += ["    " + x for x in dl[1:]]
                if t:
                    lines.append(f":type {n}: {t}")
            if returns:
                lines.append(f":return: {returns[1]}")
                if returns[0]:
                    lines.append(f":rtype: {returns[0]}")
            lines.append("")
        else:  # PLAINTEXT: free text, everything is description
            for n, _t, d in params:
                lines += f"{n} - {d}".split("\n")
            if returns:
                lines.append(f"gives {returns[1]}")
            lines.append("")
        while lines and lines[-1] == "":
            lines.pop()
        dlines = description.split("\n")
        if len(lines) == len(dlines) and len(dlines) > 1 and all(ln == "" or ln.startswith("    ") for ln in dlines[1:]):
            # nothing follows a description whose later lines are all indented: by Python's own docstring convention
            # (inspect.cleandoc) their common indentation is not part of the text, so the expectation is the flattened form
            for tok in _TOKEN_RE.findall(dlines[0]):
                if tok in self.tokens.table and self.tokens.table[tok].get("lines") == _runtime_text(description).split("\n"):
                    self.tokens.table[tok]["lines"] = inspect.cleandoc(_runtime_text(description)).split("\n")
        body = f"\n{indent}".join(lines)
        return f'{indent}"""{body}\n{indent}"""'

    def desc(self, kind: str, owner: str, name: str = "") -> str:
        tok = self.tokens.new(kind, owner, name)
        uni = " (naïve café ✓)" if self.f("UNICODE_DOC") and self.r.random() < 0.3 else ""
        second = ""
        if kind in "CF":
            x = self.r.random()
            if x < 0.2:
                second = f"\n\nSecond paragraph of {tok}."
            elif x < 0.3:
                second = f"\ncontinued line of {tok}\n\nThird block of {tok}:\nwith two lines."
            elif x < 0.42:
                # every later line is indented (a list, a code block): the indentation is part of the text
                second = f"\n\n    - first item of {tok}\n        nested under it\n    - second item"
        text = f"Summary {tok}{uni}.{second}"
        runtime = text
        if self.f("UNICODE_DOC") and kind in "CF" and int(tok[3:7]) % 4 == 0:
            # LaTeX in a docstring that is not a raw string: "\f" and "\v" are escapes (form feed, vertical tab), i.e. unusual
            # characters in the middle of ONE line (no random draw: every fourth token)
            text = text.replace(f"Summary {tok}", f"Summary {tok} \\frac{{1}}{{2}} \\varepsilon", 1)
            runtime = _runtime_text(text)
        self.tokens.table[tok]["lines"] = [ln for ln in runtime.split("\n")]
        return text

    def pick_type(self, mod: _Module, depth: int = 0) -> str:
        r = self.r
        choices = ["builtin"] * 4 + ["container"] * 2 + ["optional"]
        if mod.all_classes:
            choices += ["local"] * 2
        if self.class_registry:
            choices += ["imported"] * 2
        if self.f("FOREIGN_TYPES"):
            choices += ["foreign"] * 2
        if self.f("LITERAL_OPT"):
            choices += ["literal"] * 2
        if depth >= 2:
            choices = ["builtin"]
        c = r.choice(choices)
        if c == "builtin":
            return r.choice(_BUILTIN_TYPES)
        if c == "container":
            k = r.choice(["list", "dict", "set", "tuple", "union"])
            if k == "list":
                return f"list[{self.pick_type(mod, depth + 1)}]"
            if k == "set":
                return f"set[{self.pick_type(mod, depth + 1)}]"
            if k == "dict":
                return f"dict[str, {self.pick_type(mod, depth + 1)}]"
            if k == "tuple":
                return f"tuple[{self.pick_type(mod, depth + 1)}, {self.pick_type(mod, depth + 1)}]"
            return f"{self.pick_type(mod, depth + 1)} | {self.pick_type(mod, depth + 1)}"
        if c == "optional":
            return f"{self.pick_type(mod, depth + 1)} | None"
        if c == "local":
            return r.choice(mod.all_classes)
        if c == "imported":
            mq, cn = r.choice(self.class_registry)
            if mq == mod.qname:
                return cn
            if cn in mod.all_classes:
                return r.choice(_BUILTIN_TYPES)
            mod.add_import(f"from {mq} import {cn}")
            return cn
        if c == "foreign":
            pool = _FOREIGN + (_SIBLING_FOREIGN * 2 if self.sibling_lib else [])
            m, cn = r.choice(pool)
            mod.add_import(f"from {m} import {cn}")
            self.probes["foreign"].append(f"{m}.{cn}")
            return cn
        if c == "literal":
            mod.add_import("from typing import Literal")
            k = r.choice([1, 1, 2, 3])
            lits = r.sample(['"x"', '"y"', '"zed"', "1", "2", "True"], k)
            t = f"Literal[{', '.join(lits)}]"
            if r.random() < 0.6:
                t += " | None"
            return t
        return "int"

    def default_for(self, ann: str | None) -> str | None:
        r = self.r
        if r.random() < 0.5:
            return None
        if ann is None:
            return r.choice(["1", '"d"', "None", "True", "-2", "1.5"])
        if ann.endswith("| None"):
            return "None"
        return {"int": r.choice(["0", "7", "-3"]), "str": r.choice(['"a"', '""', '"two words"']), "bool": r.choice(["True", "False"]),
                "float": r.choice(["0.5", "-1.25", "1e3"])}.get(ann)

    def ident(self, base: str) -> str:
        if self.f("KEYWORD_NAMES") and self.r.random() < 0.25:
            return self.r.choice(_KEYWORDS)
        if self.f("SNAKE_NAMES") and self.r.random() < 0.5:
            return f"{base}_{self.r.choice(['value', 'item', 'x_y', 'long_name'])}"
        return base

    # ------------------------------------------------------------------ declarations
    def gen_function(self, mod: _Module, name: str, owner_q: str, indent: str = "", method: str | None = None,
                     force_sig: tuple | None = None) -> str:
        """Render a function/method. method in {None, 'instance', 'static', 'class'}."""
        r = self.r
        fq = f"{owner_q}.{name}"
        n_params = r.randint(0, 4)
        params: list[tuple[str, str, str | None, str | None]] = []  # (kind, name, ann, default)
        used = set()
        kinds = ["pos"] * n_params
        if n_params >= 2 and r.random() < 0.3:
            kinds[0] = "posonly"
        if n_params >= 2 and r.random() < 0.3:
            kinds[-1] = "kwonly"
        for i, k in enumerate(kinds):
            pn = self.ident(f"p{i}")
            if i == 1 and r.random() < 0.2:
                pn = "p0_max"  # a name that has another parameter's name as prefix
            while pn in used:
                pn += "x"
            used.add(pn)
            ann = self.pick_type(mod) if r.random() < 0.85 else None
            dflt = self.default_for(ann)
            params.append((k, pn, ann, dflt))
        # defaults must be trailing among positional params
        seen_default = False
        fixed = []
        for k, pn, ann, dflt in params:
            if k in ("pos", "posonly"):
                if seen_default and dflt is None:
                    dflt = self.default_for(ann) or ("None" if ann is None else None)
                    if dflt is None:
                        ann, dflt = "int", "0"
                if dflt is not None:
                    seen_default = True
            fixed.append((k, pn, ann, dflt))
        params = fixed
        if force_sig is not None:
            params = list(force_sig)
        var = self.f("VARARGS") and r.random() < 0.4
        mode = r.choice(["ann", "ann", "ann", "none", "inferred", "noret"])
        if not self.f("INFERRED_TUPLE_TIES") and mode == "inferred":
            mode = "ann"
        if mode == "inferred" and not any(p[1] == "flag" for p in params):
            params.append(("pos", "flag", None, "None"))
        # render signature
        sig: list[str] = []
        if method == "instance":
            sig.append("self")
        elif method == "class":
            sig.append("cls")
        posonly = [p for p in params if p[0] == "posonly"]
        pos = [p for p in params if p[0] == "pos"]
        kwonly = [p for p in params if p[0] == "kwonly"]

        def one(p: tuple) -> str:
            _k, pn, ann, dflt = p
            s = pn
            if ann:
                s += f": {ann}"
            if dflt is not None:
                s += f" = {dflt}" if ann else f"={dflt}"
            return s

        if posonly:
            sig += [one(p) for p in posonly] + ["/"]
        sig += [one(p) for p in pos]
        if var:
            sig.append("*args: int" if r.random() < 0.5 else "*args")
        elif kwonly:
            sig.append("*")
        sig += [one(p) for p in kwonly]
        if var and r.random() < 0.5:
            sig.append("**kwargs: str" if r.random() < 0.5 else "**kwargs")
        # return
        ret_ann = None
        body: list[str] = []
        if mode == "ann":
            ret_ann = self.pick_type(mod)
            if self.f("DOCS") and r.random() < 0.2:
                # several results of distinct plain types: the shape in which docstrings name results individually
                a_, b_ = r.sample(_BUILTIN_TYPES, 2)
                ret_ann = f"tuple[{a_}, {b_}]"
            body = ["..."]
        elif mode == "none":
            ret_ann = "None"
            body = ["pass"]
        elif mode == "noret":
            body = ["pass"]
        else:
            # un-annotated with literal returns: ties on purpose (same length tuples, same short names)
            variants = [
                ["if flag:", "    return 1, \"a\"", "return \"b\", 2.0"],
                ["if flag:", "    return 1", "return \"s\""],
                ["if flag:", "    return True, 2", "elif flag is None:", "    return 1.5", "return \"x\", \"y\""],
                ["return 1 if flag else \"no\""],
                ["for _ in range(3):", "    if flag:", "        return 0.5, 1", "return 2, 0.25"],
                ["try:", "    return \"ok\", 1", "except ValueError:", "    return 2, \"err\""],
            ]
            body = r.choice(variants)
        deco = ""
        if method == "static":
            deco = f"{indent}@staticmethod\n"
        elif method == "class":
            deco = f"{indent}@classmethod\n"
        arrow = f" -> {ret_ann}" if ret_ann else ""
        head = f"{deco}{indent}def {name}({', '.join(sig)}){arrow}:"
        lines = [head]
        if self.f("DOCS") and r.random() < 0.8:
            pdocs = []
            for _k, pn, ann, _d in params:
                if r.random() < 0.8:
                    t = ann if (ann and r.random() < 0.5 and "Literal" not in ann and "|" not in ann) else ""
                    if self.f("DOC_TYPE_MISMATCH") and r.random() < 0.5:
                        # the docstring states another type than the hint (or a type where there is no hint)
                        t = r.choice(["str", "int", "float", "bool", "list[int]", "dict[str, float]", "tuple[int, str]", "set[str]", "list[str]",
                                      "int | str | float", "Optional[int]", "Union[int, str, bool]", "float | int | None",
                                      "int | float | int | None", "int or str or int or None", "list[int] or list[int] or str"])
                    ptok = self.tokens.new("P", fq, pn)
                    ptext = f"About {ptok}."
                    if r.random() < 0.25:
                        ptext += f"\nsecond line about {ptok}"
                    self.tokens.table[ptok]["lines"] = ptext.split("\n")
                    pdocs.append((pn, t, ptext))
            if var and self.doc_style in ("NUMPYDOC", "GOOGLE") and r.random() < 0.6:
                vtok = self.tokens.new("P", fq, "args")
                pdocs.append(("*args", "", f"Variadic {vtok}."))
            rdoc = None
            named = None
            m_t = None
            if ret_ann and ret_ann.startswith("tuple["):
                inner = ret_ann[len("tuple["):-1].split(", ")
                if len(inner) == 2 and all(t in _BUILTIN_TYPES for t in inner) and inner[0] != inner[1]:
                    m_t = inner
            if m_t and self.doc_style == "NUMPYDOC" and r.random() < 0.8:
                # named results; sometimes fewer documented than returned, sometimes in the other order
                entries = [("first_out", m_t[0]), ("second_out", m_t[1])]
                if r.random() < 0.4:
                    entries = [entries[1]]
                elif r.random() < 0.3:
                    entries = entries[::-1]
                named = [(n, t, f"Outcome {self.tokens.new('R', fq, n)}.") for n, t in entries]
            elif mode in ("ann", "inferred") and r.random() < 0.7:
                rdoc = ("", f"Outcome {self.tokens.new('R', fq)}.")
            ex = None
            if r.random() < 0.3 and self.doc_style in ("NUMPYDOC", "GOOGLE"):
                xtok = self.tokens.new("X", fq)
                ex = f"{name}({xtok})" if r.random() < 0.6 else r.choice([f"{name}({xtok})[..., 0]", f"print('{xtok}...')", f"{name}({xtok}, [1, 2, ...])"])
                self.tokens.table[xtok]["code"] = ex
            lines.append(self.doc(indent + "    ", self.desc("F", fq), pdocs, rdoc, None, ex, named))
        for b in body:
            lines.append(f"{indent}    {b}")
        return "\n".join(lines) + "\n"

    def gen_class(self, mod: _Module, name: str, bases: list[str] | None = None, indent: str = "",
                  owner_q: str | None = None, n_methods: int | None = None, allow_nested: bool = True) -> str:
        r = self.r
        cq = f"{owner_q or mod.qname}.{name}"
        self.probes.setdefault("classes", []).append(cq)
        bases = bases or []
        if not bases and r.random() < 0.12:
            mod.add_import("from abc import ABC")
            bases = ["ABC"]  # an abstract class: rendered without constructor signature, but documented like any other
        head = f"{indent}class {name}({', '.join(bases)}):" if bases else f"{indent}class {name}:"
        lines = [head]
        inner = indent + "    "
        attrs: list[tuple[str, str | None, str | None]] = []
        for i in range(r.randint(0, 3)):
            an = self.ident(f"attr_{i}")
            if any(a[0] == an for a in attrs):
                continue
            ann = self.pick_type(mod) if r.random() < 0.8 else None
            val = self.default_for(ann) if ann else r.choice(["1", '"s"', "None"])
            if ann is None and val is None:
                val = "0"
            attrs.append((an, ann, val))
        has_init = r.random() < 0.6
        init_params: list[tuple[str, str, str | None, str | None]] = []
        if has_init:
            for i in range(r.randint(0, 3)):
                ann = self.pick_type(mod) if r.random() < 0.9 else None
                init_params.append(("pos", f"init_{i}", ann, None))
        ctor_only_doc = None
        if self.f("DOCS") and self.doc_style == "NUMPYDOC" and has_init and r.random() < 0.3:
            # numpydoc allows documenting a class in its constructor: no class docstring at all, parameters and attributes
            # are described in the docstring of __init__
            c_p = [(pn, "", f"Ctor {self.tokens.new('P', cq + '.__init__', pn)}.") for _k, pn, _a, _d in init_params]
            c_a = [(an, "", f"Attr {self.tokens.new('A', cq, an)}.") for an, _a, _v in attrs]
            ctor_only_doc = self.doc(inner + "    ", self.desc("F", cq + ".__init__"), c_p, None, c_a)
        elif self.f("DOCS") and r.random() < 0.85:
            pdocs = [(pn, "", f"Ctor {self.tokens.new('P', cq + '.__init__', pn)}.") for _k, pn, _a, _d in init_params if r.random() < 0.8]
            adocs = []
            if self.doc_style in ("NUMPYDOC", "GOOGLE"):
                adocs = [(an, "", f"Attr {self.tokens.new('A', cq, an)}.") for an, _a, _v in attrs if r.random() < 0.6]
            ex = f"{name}({self.tokens.new('X', cq)})" if r.random() < 0.25 and self.doc_style in ("NUMPYDOC", "GOOGLE") else None
            lines.append(self.doc(inner, self.desc("C", cq), pdocs, None, adocs, ex))
        for an, ann, val in attrs:
            if ann and val is not None:
                lines.append(f"{inner}{an}: {ann} = {val}")
            elif ann:
                lines.append(f"{inner}{an}: {ann}")
            else:
                lines.append(f"{inner}{an} = {val}")
        if has_init:
            sig = ["self"] + [f"{pn}: {ann}" if ann else pn for _k, pn, ann, _d in init_params]
            lines.append(f"{inner}def __init__({', '.join(sig)}) -> None:")
            if ctor_only_doc is not None:
                lines.append(ctor_only_doc)
            elif self.f("DOCS") and self.doc_style == "NUMPYDOC" and r.random() < 0.3:
                lines.append(self.doc(inner + "    ", self.desc("F", cq + ".__init__")))
            wrote = False
            for _k, pn, ann, _d in init_params:
                if r.random() < 0.7:
                    lines.append(f"{inner}    self.{pn}_stored{': ' + ann if ann and r.random() < 0.5 else ''} = {pn}")
                    wrote = True
            if r.random() < 0.3:
                lines.append(f"{inner}    self._hidden = 0")
                wrote = True
            if not wrote:
                lines.append(f"{inner}    pass")
        nm = r.randint(0, 3) if n_methods is None else n_methods
        used = set()
        for i in range(nm):
            mname = self.ident(f"meth_{i}")
            if r.random() < 0.15:
                mname = "_" + mname
            if mname in used:
                continue
            used.add(mname)
            kind = "instance"
            if self.f("STATIC_CLASSMETHOD") and r.random() < 0.35:
                kind = r.choice(["static", "class"])
            lines.append("")
            lines.append(self.gen_function(mod, mname, cq, inner, kind).rstrip("\n"))
        if self.f("PROPERTY") and r.random() < 0.6:
            pn = self.ident("prop_a")
            if pn not in used:
                lines.append("")
                lines.append(f"{inner}@property")
                lines.append(f"{inner}def {pn}(self) -> {self.pick_type(mod)}:")
                if self.f("DOCS") and r.random() < 0.7:
                    lines.append(self.doc(inner + "    ", self.desc("F", f"{cq}.{pn}")))
                lines.append(f"{inner}    ...")
                if r.random() < 0.4:
                    lines += ["", f"{inner}@{pn}.setter", f"{inner}def {pn}(self, new_value: int) -> None:", f"{inner}    pass"]
        if allow_nested and self.f("NESTED_CLASS") and r.random() < 0.5:
            lines.append("")
            nn = r.choice(["Inner", "_HiddenInner", "Nested"])
            lines.append(self.gen_class(mod, nn, None, inner, cq, n_methods=r.randint(0, 2), allow_nested=False).rstrip("\n"))
        if len(lines) == 1:
            lines.append(f"{inner}pass")
        return "\n".join(lines) + "\n"

    def gen_enum(self, mod: _Module, name: str) -> str:
        mod.add_import("from enum import Enum, IntEnum")
        base = self.r.choice(["Enum", "IntEnum"])
        lines = [f"class {name}({base}):"]
        if self.f("DOCS") and self.r.random() < 0.6:
            lines.append(self.doc("    ", self.desc("C", f"{mod.qname}.{name}")))
        members = self.r.sample(["ONE", "TWO", "three_x", "FOUR", "val"], self.r.randint(0, 4))
        for i, m in enumerate(members):
            lines.append(f"    {m} = {i + 1}")
        if not members and len(lines) == 1:
            lines.append("    pass")
        return "\n".join(lines) + "\n"

    # ------------------------------------------------------------------ structure
    def new_module(self, pkg_path: str, name: str) -> _Module:
        m = _Module(pkg_path, name)
        self.modules.append(m)
        self.inits.setdefault(pkg_path, [])
        # all ancestors are packages
        parts = pkg_path.split(".")
        for i in range(1, len(parts)):
            self.inits.setdefault(".".join(parts[:i]), [])
        if self.f("DOCS") and self.r.random() < 0.4:
            # bare string literals that are NOT the module docstring (PEP-224 style attribute docstrings, disabled code)
            tokn = self.tokens.new("N", m.qname, "not a docstring")
            m.tail.append(f'LIMIT_{len(self.modules)} = 3\n"""Documents the constant, belongs to no element: {tokn}."""\n')
        if self.f("DOCS") and self.r.random() < 0.6:
            tok = self.tokens.new("M", m.qname)
            uni = " – ünïcödé ✓" if self.f("UNICODE_DOC") else ""
            m.doc = f'"""Module summary {tok}{uni}."""\n'
        return m

    def fill_module(self, m: _Module, n_classes: int, n_funcs: int) -> None:
        r = self.r
        for i in range(n_classes):
            cn = f"{r.choice(['Alpha', 'Beta', 'Gamma', 'Delta', 'Omega'])}{m.name.strip('_').title().replace('_', '')}{i}"
            if r.random() < 0.15:
                cn = "_" + cn
            bases = []
            if m.public_classes and r.random() < 0.3:
                bases = [r.choice(m.public_classes)]
            elif self.class_registry and r.random() < 0.2:
                mq, bn = r.choice(self.class_registry)
                if mq != m.qname and bn not in m.all_classes:
                    m.add_import(f"from {mq} import {bn}")
                    bases = [bn]
            m.body.append(self.gen_class(m, cn, bases))
            m.all_classes.append(cn)
            if not cn.startswith("_"):
                m.public_classes.append(cn)
        for i in range(n_funcs):
            fn = self.ident(f"func_{m.name.strip('_')}_{i}")
            if r.random() < 0.15:
                fn = "_" + fn
            if fn in m.functions:
                continue
            m.functions.append(fn)
            m.body.append(self.gen_function(m, fn, m.qname))
        if r.random() < 0.25:
            # decorated and overloaded functions: the analyser looks through the decorator / takes the implementation
            m.add_import("import functools")
            m.add_import("from typing import overload")
            dn = f"cached_{m.name.strip('_')}"
            m.body.append(f"@functools.lru_cache(maxsize=None)\n" + self.gen_function(m, dn, m.qname))
            on = f"over_{m.name.strip('_')}"
            m.body.append(f"@overload\ndef {on}(x: int) -> int: ...\n@overload\ndef {on}(x: str) -> str: ...\n" + self.gen_function(m, on, m.qname, force_sig=(("pos", "x", "int | str", None),)))
            m.functions += [dn, on]
        if self.f("ENUM") and r.random() < 0.5:
            en = f"Kind{m.name.strip('_').title().replace('_', '')}"
            m.body.append(self.gen_enum(m, en))
            if not m.name.startswith("_") and "._" not in m.qname:
                self.class_registry.append((m.qname, en))  # enums are used as types by later modules, like classes
        if not m.name.startswith("_") and "._" not in m.qname:
            for cn in m.public_classes:
                self.class_registry.append((m.qname, cn))

    def generate(self) -> dict:
        r = self.r
        top = self.top
        subs = r.sample(["a", "b", "core", "util"], r.randint(1, 3))
        if self.f("TIE_REEXPORT") or self.f("INIT_DEFINED"):
            for s in ("a", "b"):
                if s not in subs:
                    subs.append(s)
        if self.f("KEYWORD_NAMES") and r.random() < 0.5:
            subs.append(r.choice(["val", "out", "sub", "schema"]))  # package segments that are Safe-DS keywords
        if "core" in subs and r.random() < 0.4:
            subs.append("core_utils")  # a package whose name has a sibling's name as prefix
        if self.f("SNAKE_NAMES"):
            subs = [s if len(s) > 1 else f"{s}_part" for s in subs]
        sub_a, sub_b = (subs + subs)[0], (subs + subs)[1]
        self.inits[top] = []
        if r.random() < 0.4:
            self.inits[top].append(f'__version__ = "{r.randint(0, 3)}.{r.randint(0, 9)}.{r.randint(0, 9)}"')
        for s in subs:
            self.inits[f"{top}.{s}"] = []
        if self.f("DEEP_PACKAGE"):
            self.inits[f"{top}.{subs[0]}.deep"] = []
            self.inits[f"{top}.{subs[0]}.deep.deeper"] = []

        # --- plain modules
        n_mod = r.randint(2, 5)
        pkgs = sorted(self.inits)
        for i in range(n_mod):
            pk = r.choice(pkgs)
            name = r.choice(["shapes", "tools", "model", "data_io", "helpers", "engine"]) + (str(i) if i else "")
            if r.random() < 0.15:
                name = "_" + name
            m = self.new_module(pk, name)
            self.fill_module(m, r.randint(0, 3), r.randint(0, 3))

        # a parameter that is optional only by its default value (how it is typed depends on mypy's configuration)
        if self.modules:
            self.modules[0].body.append("def implicit_optional_param(amount: int = None, label: str = None) -> int:\n    ...\n")

        # --- tie probes
        if self.f("HOMONYMS"):
            pa, pb = f"{top}.{sub_a}", f"{top}.{sub_b}" if sub_b != sub_a else top
            m1 = self.new_module(pa, "homo_one")
            m2 = self.new_module(pb, "homo_two")
            for m in (m1, m2):
                m.body.append(self.gen_class(m, "Item", None, n_methods=1))
                m.all_classes.append("Item")
                m.public_classes.append("Item")
                m.body.append(self.gen_function(m, "make_item", m.qname))
            for m in (m1, m2):
                # referenced in an expression, so both homonyms enter the package-wide alias table
                m.body.append("DEFAULT_ITEM_CLASS = Item\n")
            mv = self.new_module(top, "homo_via_module")
            via = r.choice([m1, m2])
            mv.add_import(f"import {via.qname} as homo_mod")
            mv.body.append("class ViaModule(homo_mod.Item):\n    def again(self, it: homo_mod.Item) -> homo_mod.Item:\n        ...\n")
            mv.all_classes.append("ViaModule")
            m3 = self.new_module(top, "homo_user")
            src = r.choice([m1, m2])
            m3.add_import(f"from {src.qname} import Item")
            m3.body.append("def use_item(it: Item, other: Item | None = None) -> Item:\n    ...\n")
            m3.body.append("class ItemHolder(Item):\n    held: Item\n\n    def swap(self, it: Item) -> list[Item]:\n        ...\n")
            m3.all_classes.append("ItemHolder")
            self.probes["homonyms"].append({"name": "Item", "modules": [m1.qname, m2.qname], "user": m3.qname})
            # the other homonym is used as a type by a second module; one of the two may be re-exported by a wildcard import
            other_src = m2 if src is m1 else m1
            m4 = self.new_module(top, "homo_user_two")
            m4.add_import(f"from {other_src.qname} import Item")
            m4.body.append("def use_other_item(it: Item) -> Item | None:\n    ...\n")
            if r.random() < 0.5:
                star = r.choice([m1, m2])
                self.inits[star.pkg_path].append(f"from {star.qname} import *")
            # a class whose name ends with the homonyms' name, and a function whose parameter type is only known from its
            # docstring, by its bare name: the tool has to search the classes of the package for it
            m1.body.append(self.gen_class(m1, "BulkItem", None, n_methods=1))
            m1.all_classes.append("BulkItem")
            m1.public_classes.append("BulkItem")
            m5 = self.new_module(top, "homo_doc_user")
            doc = {
                "NUMPYDOC": "Invoice.\n\n    Parameters\n    ----------\n    item : Item\n        what to invoice\n    bulk : BulkItem\n        more of it\n\n    Returns\n    -------\n    result : Item\n        the same item\n",
                "GOOGLE": "Invoice.\n\n    Args:\n        item (Item): what to invoice\n        bulk (BulkItem): more of it\n\n    Returns:\n        Item: the same item\n",
                "REST": "Invoice.\n\n    :param item: what to invoice\n    :type item: Item\n    :param bulk: more of it\n    :type bulk: BulkItem\n    :returns: the same item\n    :rtype: Item\n",
            }.get(self.doc_style, "Invoice an Item.\n")
            # a parameter that is optional only by its default value
            m5.body.append("def implicit_optional(amount: int = None, label: str = None) -> int:\n    ...\n")
            m5.body.append(f'def invoice(item, bulk=None):\n    """{doc}    """\n    return item\n')

        if self.f("TIE_REEXPORT"):
            impl_pkg = r.choice([top, f"{top}.{subs[-1]}"])
            mi = self.new_module(impl_pkg, "_impl_tie")
            mi.body.append(self.gen_class(mi, "Thing", None, n_methods=1))
            mi.all_classes.append("Thing")
            mi.body.append(self.gen_function(mi, "make_thing", mi.qname))
            for s in (sub_a, sub_b):
                self.inits[f"{top}.{s}"].append(f"from {mi.qname} import Thing")
                if r.random() < 0.5:
                    self.inits[f"{top}.{s}"].append(f"from {mi.qname} import make_thing")
            mu = self.new_module(top, "tie_user")
            mu.add_import(f"from {mi.qname} import Thing")
            mu.body.append("def use_thing(t: Thing) -> Thing | None:\n    ...\n")
            mu.body.append("class ThingBox:\n    content: Thing\n\n    def put(self, t: Thing) -> None:\n        pass\n")
            mu.all_classes.append("ThingBox")
            self.probes["tie_reexports"].append({"name": "Thing", "impl": mi.qname, "packages": [f"{top}.{sub_a}", f"{top}.{sub_b}"]})

        if self.f("ALIAS_REEXPORT"):
            ma = self.new_module(f"{top}.{sub_a}", "_aliased")
            ma.body.append(self.gen_class(ma, "_HiddenWorker", None, n_methods=2))
            ma.all_classes.append("_HiddenWorker")
            ma.body.append(self.gen_function(ma, "_hidden_helper", ma.qname))
            ma.body.append(self.gen_function(ma, "plain_helper", ma.qname))
            tgt = r.choice([top, f"{top}.{sub_a}"])
            self.inits[tgt].append(f"from {ma.qname} import _HiddenWorker as Worker")
            self.inits[tgt].append(f"from {ma.qname} import _hidden_helper as helper")
            self.probes["aliases"][f"{ma.qname}._HiddenWorker"] = ["Worker"]
            self.probes["aliases"][f"{ma.qname}._hidden_helper"] = ["helper"]
            if r.random() < 0.5:
                self.inits[tgt].append(f"from {ma.qname} import plain_helper")
            mu = self.new_module(top, "alias_user")
            mu.add_import(f"from {ma.qname} import _HiddenWorker")
            mu.body.append("def employ(w: _HiddenWorker) -> list[_HiddenWorker]:\n    ...\n")

        if self.f("STAR_REEXPORT"):
            ms = self.new_module(f"{top}.{sub_b}", "_starred")
            self.fill_module(ms, r.randint(1, 2), r.randint(1, 2))
            self.inits[r.choice([top, f"{top}.{sub_b}"])].append(f"from {ms.qname} import *")

        if self.f("MODULE_REEXPORT"):
            if r.random() < 0.5:
                # a module re-exported by a package that is NOT closer to the root than the module itself
                ms_ = self.new_module(top, "_impl_sideways")
                self.fill_module(ms_, 1, 1)
                self.inits[f"{top}.{sub_b}"].append(f"from {top} import _impl_sideways as sideways")
            if sub_a != sub_b and r.random() < 0.5:
                # one module re-exported AS A MODULE by two packages of equal depth: one renames it, one keeps its name
                me2 = self.new_module(top, "engine_impl")
                self.fill_module(me2, 1, 1)
                first, second = sorted([sub_a, sub_b])
                self.inits[f"{top}.{first}"].append(f"from {top} import engine_impl as engine")
                self.inits[f"{top}.{second}"].append(f"from {top} import engine_impl")
            mm = self.new_module(f"{top}.{sub_a}", "_modre")
            self.fill_module(mm, 1, 2)
            if r.random() < 0.5:
                self.inits[f"{top}.{sub_a}"].append("from . import _modre as modre")
            else:
                self.inits[top].append(f"from {top}.{sub_a} import _modre as public_modre")

        if self.f("PRIVATE_BASE_2SUBS"):
            mb = self.new_module(r.choice([top, f"{top}.{sub_a}"]), "inherit_base")
            mb.add_import("from typing import Literal")
            lit = r.choice(['Literal["x"] | None', 'Literal["x", "y"] | None', 'Literal[1] | None', "int | None"])
            args_sig = ", *args: int" if self.f("VARARGS") else ""
            tok = self.tokens.new("F", f"{mb.qname}._Base.shared")
            docline = f'        """Shared {tok}."""\n' if self.f("DOCS") else ""
            override = self.f("DOCS") and r.random() < 0.5
            tok_o = self.tokens.new("F", f"{mb.qname}.PubOne.shared") if override else None
            for cn in ("_Base", "PubOne", "PubTwo", "_Root"):
                self.probes.setdefault("classes", []).append(f"{mb.qname}.{cn}")
            two_level = r.random() < 0.6
            if two_level:
                # a private base of the private base: its public members surface in the public subclasses as well
                # _Root.shared is overridden by _Base.shared: every public subclass must show the nearer one, so the text
                # of _Root.shared may not show up anywhere (token kind N)
                tok_n = self.tokens.new("N", f"{mb.qname}._Root.shared", "overridden by the nearer private base")
                root_doc = f'        """Root version, overridden below: {tok_n}."""\n' if self.f("DOCS") else ""
                mb.body.append("class _Root:\n    def rooted(self, n: int = 1) -> int:\n        ...\n\n"
                               f"    def shared(self, mode: int = 5) -> int:\n{root_doc}        ...\n\n    root_attr: int = 0\n")
                mb.all_classes.append("_Root")
            mb.body.append(
                f"class _Base{'(_Root)' if two_level else ''}:\n"
                f"    def shared(self, mode: {lit} = None{args_sig}) -> {lit}:\n"
                f"{docline}"
                "        ...\n\n"
                f"    def other(self, items: list[{lit}], flag: bool = False) -> tuple[int, str]:\n"
                "        ...\n\n"
                "    def _not_shared(self) -> None:\n"
                "        pass\n\n"
                "    def priced(self, amount: Decimal, step: Fraction | None = None) -> Decimal:\n"
                "        ...\n",
            )
            mb.add_import("from decimal import Decimal")
            mb.add_import("from fractions import Fraction")
            if override:
                mb.body.append(f'class PubOne(_Base):\n    def own_one(self) -> int:\n        ...\n\n    def shared(self, mode: int = 0) -> int:\n        """Overridden {tok_o}."""\n        ...\n')
            else:
                mb.body.append("class PubOne(_Base):\n    def own_one(self) -> int:\n        ...\n")
            mb.body.append("class PubTwo(_Base):\n    pass\n")
            mb.all_classes += ["_Base", "PubOne", "PubTwo"]
            mb.public_classes += ["PubOne", "PubTwo"]
            group = [f"{mb.qname}.PubTwo"] if override else [f"{mb.qname}.PubOne", f"{mb.qname}.PubTwo"]
            if r.random() < 0.6:
                mo = self.new_module(top, "inherit_other")
                mo.add_import(f"from {mb.qname} import _Base")
                mo.body.append("class PubThree(_Base):\n    def own_three(self, v: int = 3) -> None:\n        pass\n")
                mo.all_classes.append("PubThree")
                self.probes.setdefault("classes", []).append(f"{mo.qname}.PubThree")
                # a third module whose subclass, like PubTwo, adds no members of its own
                m4 = self.new_module(top, "inherit_third")
                m4.add_import(f"from {mb.qname} import _Base")
                m4.body.append("class PubFour(_Base):\n    pass\n")
                m4.all_classes.append("PubFour")
                group.append(f"{m4.qname}.PubFour")
                self.probes.setdefault("classes", []).append(f"{m4.qname}.PubFour")
                group.append(f"{mo.qname}.PubThree")
            self.probes["inherit_groups"].append({"base": f"{mb.qname}._Base", "subs": group, "members": ["shared", "other", "priced"] + (["rooted"] if two_level else [])})

        if self.f("TYPEVARS"):
            mt = self.new_module(top, "generic_mod")
            mt.add_import("from typing import Generic, TypeVar")
            mt.body.append('T = TypeVar("T")\nK = TypeVar("K", bound=int)\nV_co = TypeVar("V_co", covariant=True)\n')
            mt.body.append("def first(xs: list[T], k: K) -> T:\n    ...\n")
            mt.body.append("def pair(a: T, b: K) -> tuple[T, K]:\n    ...\n")
            mt.body.append("class ReadOnly(Generic[V_co]):\n    def peek(self) -> V_co:\n        ...\n")
            mt.body.append("class Box(Generic[T]):\n    def __init__(self, item: T) -> None:\n        self.item = item\n\n    def get(self) -> T:\n        ...\n")
            mt.add_import("from typing import TypeVar")
            mt.body.append('KT = TypeVar("KT")\nVT = TypeVar("VT")\nZT = TypeVar("ZT")\n')
            mt.body.append("class Pair:\n    def __init__(self, key: KT, value: VT, extra: ZT) -> None:\n        self.key = key\n        self.value = value\n\n"
                           "    def swap(self, a: VT, b: KT) -> tuple[KT, VT]:\n        ...\n")
            mt.body.append("class _Picker:\n    def pick(self, items: list[T], fallback: T) -> T:\n        ...\n")
            mt.body.append("class PlainPicker(_Picker):\n    pass\n")
            mt.body.append("class BoxPicker(_Picker, Generic[T]):\n    def __init__(self, item: T) -> None:\n        self.item = item\n")
            mt.all_classes += ["Box", "ReadOnly", "Pair", "_Picker", "PlainPicker", "BoxPicker"]
            # type variables of the same names used by NON-generic classes of other modules (before and after in name order)
            for uname in ("a_typevar_user", "typevar_user_z"):
                mu2 = self.new_module(top, uname)
                mu2.add_import("from typing import TypeVar")
                mu2.body.append('T = TypeVar("T")\nV_co = TypeVar("V_co", covariant=True)\n')
                mu2.body.append("class Picker:\n    def first(self, items: list[T]) -> T:\n        ...\n\n    def peek(self, src: list[V_co]) -> V_co:\n        ...\n")
                mu2.body.append("def pick(items: list[T]) -> T:\n    ...\n")
                mu2.all_classes.append("Picker")

        if self.f("MEMBER_ACCESS") and len(self.modules) >= 2:
            # modules that reference each other through attribute access (import pkg.mod as m; m.Class())
            tgt = next((m for m in self.modules if m.public_classes and not m.name.startswith("_")), None)
            if tgt is not None:
                mx = self.new_module(top, "member_user")
                mx.add_import(f"import {tgt.qname} as tgtmod")
                cn = tgt.public_classes[0]
                mx.body.append(f"def build() -> tgtmod.{cn}:\n    return tgtmod.{cn}()\n")
                mx.body.append(f"DEFAULT = tgtmod.{cn}\n")

        if self.f("NAME_ECHO"):
            # declarations named like (a prefix of) a directory segment of their own target path: the common idiom
            # `shapes/circle/__init__.py: from ._circle import circle`
            taken = {m.name.lstrip("_") for m in self.modules if m.pkg_path == f"{top}.{sub_a}"}
            echo = r.choice([n for n in ["circle", "shape", "tools", "widget"] if n not in taken])
            pk = f"{top}.{sub_a}.{echo}"
            me = self.new_module(pk, f"_{echo}")
            me.body.append(self.gen_function(me, echo, me.qname))
            me.body.append(self.gen_class(me, echo.title(), None, n_methods=1))
            me.all_classes.append(echo.title())
            self.inits[pk].append(f"from ._{echo} import {echo}")
            self.inits[pk].append(f"from ._{echo} import {echo.title()}")
            # a function whose name is a prefix of the parent package's name, re-exported by the grand-parent
            pre = sub_a[: max(1, len(sub_a) - 1)] if len(sub_a) > 1 else sub_a
            mp = self.new_module(f"{top}.{sub_a}", "_prefixed")
            mp.body.append(self.gen_function(mp, pre, mp.qname))
            self.inits[top].append(f"from {mp.qname} import {pre}")
            self.probes.setdefault("name_echo", []).append({"package": pk, "names": [echo, pre]})

        if self.f("INIT_DEFINED"):
            # declarations defined directly in a sub-package's __init__.py, re-exported by the parent package(s)
            pk = f"{top}.{sub_a}"
            self.inits[pk].append("class InitThing:\n    def ping(self, n: int = 0) -> int:\n        ...\n\n\ndef init_func(x: int) -> InitThing:\n    ...\n")
            self.inits[top].append(f"from {pk} import InitThing")
            if r.random() < 0.5:
                self.inits[top].append(f"from {pk} import init_func")
            for other in [x for x in subs if x != sub_a][:2]:
                # sibling packages re-export it too; each of them holds an ordinary module, so that its __init__ is analysed
                self.inits[f"{top}.{other}"].append(f"from {pk} import InitThing")
                mo_ = self.new_module(f"{top}.{other}", f"beside_{other.strip('_')}")
                mo_.body.append(self.gen_function(mo_, f"beside_{other.strip('_')}_fn", mo_.qname))

        if self.f("NC_PAIRS"):
            # declarations whose Python names differ only by underscores / case / a leading underscore, re-exported into ONE package
            mn = self.new_module(f"{top}.{sub_a}", "_nc_pairs")
            for fn_ in ("data_set", "dataSet", "make_item_x", "makeItemX"):
                mn.body.append(self.gen_function(mn, fn_, mn.qname))
            mn.body.append(self.gen_class(mn, "HTTPClient", None, n_methods=1))
            mn.body.append(self.gen_class(mn, "HttpClient", None, n_methods=1))
            mn.body.append(self.gen_class(mn, "_PairWorker", None, n_methods=1))
            mn.body.append(self.gen_function(mn, "PairWorker", mn.qname))
            mn.all_classes += ["HTTPClient", "HttpClient", "_PairWorker"]
            # the ignored-argument idiom: parameters whose names consist of underscores only
            mn.body.append("def on_pair_event(_, __, value: int = 0, ___: str = '', limit: int = None) -> int:\n    return value\n")
            for nm in ("data_set", "dataSet", "make_item_x", "makeItemX", "HTTPClient", "HttpClient", "_PairWorker", "PairWorker", "on_pair_event"):
                self.inits[f"{top}.{sub_a}"].append(f"from {mn.qname} import {nm}")

        if self.f("TRAILING_UNDERSCORE"):
            # names that end in underscores (the usual way to avoid keywords/builtins): modules, re-exported declarations
            mt_ = self.new_module(r.choice(pkgs), r.choice(["types_", "filter_", "_compat_"]))
            self.fill_module(mt_, 1, 1)
            mu_ = self.new_module(f"{top}.{sub_a}", "_under")
            mu_.body.append(self.gen_function(mu_, "filter_", mu_.qname))
            mu_.body.append(self.gen_class(mu_, "Range_", None, n_methods=1))
            mu_.all_classes.append("Range_")
            self.inits[f"{top}.{sub_a}"].append(f"from {mu_.qname} import filter_")
            self.inits[r.choice([top, f"{top}.{sub_a}"])].append(f"from {mu_.qname} import Range_")
            if r.random() < 0.5:
                self.inits[top].append(f"from {top}.{sub_a} import _under as under_")

        if self.f("UNDERSCORE_TWIN"):
            pk = r.choice(pkgs)
            for nm in ("twin", "_twin"):
                mt2 = self.new_module(pk, nm)
                mt2.body.append(self.gen_function(mt2, f"run{nm.replace('_', 'U')}", mt2.qname))
                mt2.body.append(self.gen_class(mt2, f"Twin{'Priv' if nm.startswith('_') else 'Pub'}", None, n_methods=1))

        if self.f("TESTDIRS"):
            for d in r.sample(["tests", "test", "docs", "testing", "mytests", "docs_old"], 3):
                self.extra_files[f"{top}/{d}/__init__.py"] = ""
                self.extra_files[f"{top}/{d}/mod_in_{d}.py"] = (
                    "from __future__ import annotations\n\n"
                    f"def func_in_{d}(a: int) -> int:\n    ...\n\nclass ClassIn{d.title().replace('_', '')}:\n    x: int = 0\n"
                )
            self.extra_files[f"{top}/test_like.py"] = "def looks_like_test(a: str) -> str:\n    ...\n"

        if self.f("DOCS"):
            # two classes whose qualified names are in a string-prefix relation, with methods of the same names, side by side
            # (added last, so that the random stream of everything above is unaffected)
            mp = self.new_module(top, "prefix_names")
            mp.body.append(self.gen_class(mp, "Grid", None, n_methods=2, allow_nested=False))
            mp.body.append(self.gen_class(mp, "GridView", None, n_methods=3, allow_nested=False))
            mp.all_classes += ["Grid", "GridView"]
            mp.public_classes += ["Grid", "GridView"]
            # parameters whose names differ by a trailing underscore only, the underscore variant documented later
            for fn_ in ("bounded", "clamped"):
                mp.body.append(self.gen_function(mp, fn_, mp.qname, force_sig=(("pos", "limit", "int", None), ("pos", "limit_", "int", "0"),
                                                                                  ("pos", "type", "str", '"a"'), ("pos", "type_", "str", '"b"'))))
            # a class that documents its constructor parameters in the CLASS docstring and defines a nested class BEFORE __init__
            cq_ = f"{mp.qname}.Holder"
            self.probes.setdefault("classes", []).append(cq_)
            p_w = self.tokens.new("P", cq_ + ".__init__", "width")
            p_h = self.tokens.new("P", cq_ + ".__init__", "height")
            cdoc = self.doc("    ", self.desc("C", cq_), [("width", "", f"Ctor {p_w}."), ("height", "", f"Ctor {p_h}.")], None, [], None)
            mp.body.append(f"class Holder:\n{cdoc}\n\n    class Part:\n        def ping(self, n: int = 0) -> int:\n            ...\n\n"
                           "    def __init__(self, width: int = 1, height: int = 2) -> None:\n        self.width = width\n        self.height = height\n")
            mp.all_classes += ["Holder"]
            mp.public_classes += ["Holder"]
            if self.doc_style in ("NUMPYDOC", "GOOGLE"):
                # an example block in which an expected-output line stands BETWEEN prompt lines
                fq_ = f"{mp.qname}.scaled"
                x1, x2 = self.tokens.new("X", fq_), self.tokens.new("X", fq_)
                self.tokens.table[x1]["code"] = f"first = scaled({x1})"
                self.tokens.table[x2]["code"] = f"second = scaled({x2})"
                dl_ = self.desc("F", fq_).split("\n")
                ex_ = [f">>> first = scaled({x1})", ">>> first", "2", f">>> second = scaled({x2})"]
                if self.doc_style == "NUMPYDOC":
                    body_ = [*dl_, "", "Examples", "--------", *ex_]
                else:
                    body_ = [*dl_, "", "Examples:", *["    " + e for e in ex_]]
                mp.body.append("def scaled(v: int = 1) -> int:\n    \"\"\"" + "\n".join(("    " + ln if ln and i else ln) for i, ln in enumerate(body_)) + "\n    \"\"\"\n    ...\n")

        # everyday shapes that once aborted the tool (added last, no random draws): an enum with a method and a property, and
        # a constructor that fills a container attribute element by element and unpacks into starred / nested targets
        me_ = self.new_module(top, "everyday_shapes")
        me_.add_import("from enum import Enum")
        me_.body.append("class Mode(Enum):\n    FAST = 1\n    SLOW = 2\n\n    def describe(self) -> str:\n        return self.name\n\n"
                        "    @property\n    def is_fast(self) -> bool:\n        return self is Mode.FAST\n")
        me_.body.append("class Registry:\n    defaults = {}\n    defaults[\"mode\"] = 1\n\n    def __init__(self, items: list[int]) -> None:\n"
                        "        self.table = {}\n        self.table[\"first\"] = items\n        self.head, *self.rest = items\n"
                        "        (self.low, self.high), self.count = (0, 1), len(items)\n")
        # ... and a class whose comparison methods are completed by functools.total_ordering (generated by a mypy plugin)
        me_.add_import("import functools")
        me_.body.append("@functools.total_ordering\nclass Version:\n    def __init__(self, major: int = 0) -> None:\n        self.major = major\n\n"
                        "    def __eq__(self, other: object) -> bool:\n        return True\n\n    def __lt__(self, other: \"Version\") -> bool:\n        return False\n")
        # ... and scikit-learn style numpydoc entries whose default is a call of a long dotted name
        me_.body.append('class Tuned:\n    """A tuned thing.\n\n    Parameters\n    ----------\n'
                        '    cv : object, default=model_selection.splitters.StratifiedShuffleKFold(n_splits=5)\n        The splitter.\n'
                        '    depth : int, default=3\n        The depth.\n\n    Attributes\n    ----------\n'
                        '    best_ : dict, default=collections_extra.ordered.DefaultOrderedMapping(list)\n        The best.\n    """\n\n'
                        '    def __init__(self, cv=None, depth=3) -> None:\n        self.best_ = {}\n')
        # ... and float literals beyond the range of a double (mypy evaluates them to inf / -inf)
        me_.body.append("def bounds(lower: float = -1e400, upper: float = 1e999, eps: float = 1e-07) -> float:\n    ...\n")
        # ... and numpydoc default clauses in the spellings found in the wild: the text after `default` is not always an expression
        from . import probes as _probes

        me_.body.append(_probes.PROBES["numpydoc_default_spellings"])
        me_.all_classes += ["Registry", "Version", "Tuned", "Solver"]
        me_.public_classes += ["Registry", "Version", "Tuned", "Solver"]

        # segment names whose underscores are followed by digits only (conv_3, layer_1/pool_2): the converted path differs
        # from the Python path although no "_<letter>" occurs in it (added last, no effect on the random stream above)
        mc_ = self.new_module(top, "conv_3")
        mc_.body.append("def conv_3_kernel(size_2: int = 3) -> int:\n    ...\n")
        mp_ = self.new_module(f"{top}.layer_1", "pool_2")
        mp_.body.append("class Pool2:\n    def run_2(self, n_1: int = 1) -> int:\n        ...\n")
        mp_.all_classes += ["Pool2"]
        mp_.public_classes += ["Pool2"]

        # the same class name in equally named modules of two sub-packages (orders/models.py and users/models.py both define
        # Config), each used as a type by another module (added last, no random draws)
        mo1 = self.new_module(f"{top}.orders", "models")
        mo1.body.append("class Config:\n    retries: int = 3\n\n    def order_limit(self) -> int:\n        ...\n\n\nclass Order:\n    cfg: Config\n")
        mo2 = self.new_module(f"{top}.users", "models")
        mo2.body.append("class Config:\n    locale: str = \"en\"\n\n    def user_name(self) -> str:\n        ...\n")
        for m_ in (mo1, mo2):
            m_.all_classes += ["Config"]
            m_.public_classes += ["Config"]
        ms1 = self.new_module(top, "service_orders")
        ms1.add_import(f"from {mo1.qname} import Config")
        ms1.body.append("def place(cfg: Config) -> Config:\n    ...\n\n\nclass OrderService(Config):\n    pass\n")
        ms2 = self.new_module(top, "service_users")
        ms2.add_import(f"from {mo2.qname} import Config")
        ms2.body.append("def greet(cfg: Config) -> Config:\n    ...\n")

        # a module with TWO leading underscores that the top-level package publishes by importing it
        md_ = self.new_module(top, "__dunder_impl")
        md_.body.append("def dunder_helper(n: int = 2) -> int:\n    ...\n")
        self.inits[top].append(f"from {top} import __dunder_impl")

        # --- files
        files: dict[str, str] = {}
        for pk, lines in self.inits.items():
            path = pk.replace(".", "/") + "/__init__.py"
            files[path] = ("\n".join(lines) + "\n") if lines else ""
        for m in self.modules:
            files[m.qname.replace(".", "/") + ".py"] = m.render()
        files.update(self.extra_files)
        if self.sibling_lib:
            files.update(_SIBLING_FILES)
        for p, t in files.items():
            compile(t, p, "exec")  # the generator must only ever emit valid Python
        return {
            "files": files,
            "src_rel": top,
            "top": top,
            "features": sorted(self.features),
            "doc_style": self.doc_style,
            "seed": self.seed,
            "meta": {"tokens": self.tokens.table, "probes": self.probes},
            "name": f"gen-{self.seed}",
        }


def generate_package(seed: int, features: list[str] | None = None, doc_style: str | None = None) -> dict:
    return PackageGenerator(seed, features, doc_style).generate()


def two_package_container(seed: int, container: str = "box", spread: bool | str | None = None) -> dict:
    """A source directory that is not a package itself but holds TWO top-level packages (get_api then keeps the directory
    as root and names the API after it)."""
    a = generate_package(seed)
    k = 1
    b = generate_package(seed + k)
    while b["top"] == a["top"] or (set(b["files"]) & set(a["files"])):
        k += 1
        b = generate_package(seed + k)
    # either side by side in the container, or each inside its own (non-package) project directory
    if spread is None:
        spread = (seed // 7) % 2 == 1
    pa, pb = (f"{container}/proj_one", f"{container}/zz_proj_two") if spread else (container, container)
    if spread == "uneven":
        # the second package lies one level deeper, in a sibling directory that sorts first: only the nearest package
        # (the first one) belongs to the input, whatever order the directories are listed in
        pa, pb = f"{container}/proj_one", f"{container}/aa_extras/more"
    files = {f"{pa}/{p}": t for p, t in a["files"].items()}
    files.update({f"{pb}/{p}": t for p, t in b["files"].items()})
    meta = {"tokens": dict(a["meta"]["tokens"]), "probes": {}}
    # tokens are only unique per generated package: keep the first package's tokens, drop the second's docstring checks
    for key in set(a["meta"]["probes"]) | set(b["meta"]["probes"]):
        va, vb = a["meta"]["probes"].get(key), b["meta"]["probes"].get(key)
        if isinstance(va, dict) or isinstance(vb, dict):
            meta["probes"][key] = dict(va or {}, **(vb or {}))
        else:
            meta["probes"][key] = list(va or []) + list(vb or [])
    if spread == "uneven":
        return {
            "files": files, "src_rel": container, "top": a["top"], "features": sorted(set(a["features"]) | {"DEEPER_SIBLING_PACKAGE"}),
            "doc_style": a["doc_style"], "seed": seed, "meta": a["meta"], "name": f"gen2u-{seed}", "container": container, "token_scope": a["top"],
        }
    return {
        "files": files, "src_rel": container, "top": a["top"], "features": sorted(set(a["features"]) | set(b["features"]) | {"TWO_TOP_PACKAGES"}),
        "doc_style": a["doc_style"], "seed": seed, "meta": meta, "name": f"gen2-{seed}", "container": container, "token_scope": a["top"],
    }


# --------------------------------------------------------------------------- corpus

CORPUS = ["various_modules_package", "main_package", "docstring_parser_package"]


def corpus_package(name: str, repo: str) -> dict:
    """The repo's own test-data package `name`, copied with the __init__ files of its ancestors."""
    base = os.path.join(repo, "tests")
    files: dict[str, str] = {"tests/__init__.py": "", "tests/data/__init__.py": ""}
    for rel in ("__init__.py", "data/__init__.py"):
        p = os.path.join(base, rel)
        if os.path.exists(p):
            with open(p, encoding="utf-8") as f:
                files[f"tests/{rel}"] = f.read()
    top = os.path.join(base, "data", name)
    for dirpath, dirnames, filenames in os.walk(top):
        dirnames.sort()
        dirnames[:] = [d for d in dirnames if d != "__pycache__"]
        for fn in sorted(filenames):
            if fn.endswith((".py", ".pyi")):
                full = os.path.join(dirpath, fn)
                rel = os.path.relpath(full, base)
                with open(full, encoding="utf-8") as f:
                    files[f"tests/{rel}"] = f.read()
    return {
        "files": files,
        "src_rel": f"tests/data/{name}",
        "top": "tests",
        "features": ["CORPUS"],
        "doc_style": "NUMPYDOC" if name == "docstring_parser_package" else "PLAINTEXT",
        "meta": {"tokens": {}, "probes": {}},
        "name": f"corpus-{name}",
        "needs_tr": True,
    }


# --------------------------------------------------------------------------- options

OPTION_SPACE = {
    "docstyle": ["PLAINTEXT", "NUMPYDOC", "GOOGLE", "REST"],
    "tr": [False, True],
    "nc": [False, True],
    "tsp": ["CODE", "DOCSTRING"],
    "tsw": ["WARN", "IGNORE"],
}


def all_option_combos() -> list[dict]:
    combos = [{}]
    for k, vals in OPTION_SPACE.items():
        combos = [dict(c, **{k: v}) for c in combos for v in vals]
    return combos


def pick_options(r, pkg: dict) -> dict:  # noqa: ANN001
    opts = {k: r.choice(v) for k, v in OPTION_SPACE.items()}
    # mostly parse docstrings in the style they were written in, sometimes in another one
    if r.random() < 0.7:
        opts["docstyle"] = pkg.get("doc_style", "PLAINTEXT")
    if pkg.get("needs_tr"):
        opts["tr"] = True
    return opts
