"""vsim - deterministic simulation with fault injection for Safe-DS/Stub-Generator (see /verif/DESIGN.md)."""
