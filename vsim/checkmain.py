"""Generic driver of a check: batch -> triage (known findings) -> minimise -> replay-confirm ->
VIOLATION lines, evidence file, exit code.  The property-specific parts live in vsim/oracles/*.
"""
from __future__ import annotations

import copy
import json
import os
import re
import time

from . import engine, runner
from .seeds import H

EXIT_OK, EXIT_VIOLATION, EXIT_HARNESS = 0, 1, 2


# --------------------------------------------------------------------------- fingerprints / known findings


def fingerprint(v: dict) -> dict:
    d = v.get("detail") or {}
    exc = d.get("exception") or {}
    diff = d.get("difference") or {}
    fp = {
        "class": v.get("class"),
        "exc_type": exc.get("type"),
        "func": (exc.get("innermost_tool") or [None, None])[1],
        "message": exc.get("message"),
        "path": diff.get("path") or d.get("path"),
        "clause": d.get("clause"),
        "key": d.get("key"),
    }
    fp.update(d.get("fingerprint") or {})
    return {k: val for k, val in fp.items() if val is not None}


def group_key(v: dict) -> str:
    fp = fingerprint(v)
    path = fp.get("path") or ""
    # group by the kind of file, not by the concrete generated name
    kind = "api.json" if str(path).endswith("__api.json") else ("stub" if str(path).endswith(".sdsstub") else str(path))
    return "|".join(str(x) for x in (fp.get("class"), fp.get("exc_type"), fp.get("func"), fp.get("clause"), kind, fp.get("gkey", "")))


def matches_known(v: dict, finding: dict, prop: str) -> bool:
    if finding.get("property") != prop:
        return False
    fp = fingerprint(v)
    m = finding.get("match") or {}
    if not m:
        return False
    for k, want in m.items():
        if k.endswith("_re"):
            have = fp.get(k[:-3])
            if have is None or re.search(want, str(have)) is None:
                return False
        elif fp.get(k) != want:
            return False
    return True


# --------------------------------------------------------------------------- minimisation


def _same_violation(verdict: dict, want: dict, exclude=None) -> dict | None:  # noqa: ANN001
    """A violation of the same group - and, when `exclude` is given, one that `exclude` does not accept (the minimiser
    must not slide from an unknown violation into a listed known finding of the same group)."""
    wk = group_key(want)
    for v in verdict.get("violations", []):
        if group_key(v) == wk and not (exclude is not None and exclude(v)):
            return v
    return None


def minimise(mod, case: dict, violation: dict, budget: int, parallel: int, exclude=None) -> tuple[dict, dict, int]:  # noqa: ANN001
    """Delta debugging while the same violation class persists.  Returns (case, violation, probes used)."""
    probes = [0]
    best_case, best_v = case, violation

    def attempt(cand: dict) -> bool:
        nonlocal best_case, best_v
        if probes[0] >= budget:
            return False
        probes[0] += 1
        cand = dict(cand)
        cand["index"] = f"min{probes[0]}-{case['index']}"
        try:
            verdict = mod.run_case(cand, parallel=parallel)
        except Exception:  # noqa: BLE001
            return False
        v = _same_violation(verdict, violation, exclude)
        if v is not None and not verdict.get("harness_error"):
            best_case, best_v = cand, v
            return True
        return False

    # 1. only the histories the violation needs
    if hasattr(mod, "essential_histories"):
        cand = mod.essential_histories(copy.deepcopy(best_case), best_v)
        if cand is not None and len(cand["histories"]) < len(best_case["histories"]):
            attempt(cand)
    # 2. drop steps of multi-step histories, drop faults
    changed = True
    while changed and probes[0] < budget:
        changed = False
        for hi, hist in enumerate(best_case["histories"]):
            if len(hist) > 1:
                for si in range(len(hist) - 1):  # never drop the last (judged) step
                    cand = copy.deepcopy(best_case)
                    del cand["histories"][hi][si]
                    if attempt(cand):
                        changed = True
                        break
            if changed:
                break
            for si, step in enumerate(hist):
                for fi in range(len(step.get("faults") or [])):
                    if len(step["faults"]) <= 1 and getattr(mod, "NEEDS_FAULT", False):
                        continue
                    cand = copy.deepcopy(best_case)
                    del cand["histories"][hi][si]["faults"][fi]
                    if attempt(cand):
                        changed = True
                        break
                if changed:
                    break
            if changed:
                break
    # 3. reset schedule dimensions to canonical, one by one
    for hi in range(len(best_case["histories"])):
        for si in range(len(best_case["histories"][hi])):
            for dim in list((best_case["histories"][hi][si].get("sigma") or {}).keys()):
                if probes[0] >= budget:
                    break
                cand = copy.deepcopy(best_case)
                del cand["histories"][hi][si]["sigma"][dim]
                attempt(cand)
    # 4. delete package files (modules first, then empty packages)
    files = sorted(best_case["pkg"]["files"])
    for rel in files:
        if probes[0] >= budget:
            break
        if rel.endswith("__init__.py") or rel not in best_case["pkg"]["files"]:
            continue
        cand = copy.deepcopy(best_case)
        del cand["pkg"]["files"][rel]
        attempt(cand)
    return best_case, best_v, probes[0]


# --------------------------------------------------------------------------- replay


def case_from_replay(doc: dict) -> dict:
    return {
        "index": f"replay-{doc['case_seed'] % 100000}",
        "case_seed": doc["case_seed"],
        "verif_seed": doc.get("verif_seed"),
        "pkg": doc["package"],
        "options": doc["options"],
        "histories": doc["histories"],
        "params": doc.get("params", {}),
        # the histories of a replay file are complete (planned fault/crash histories included): a replay must run exactly
        # them and not plan new ones from the (possibly minimised) package
        "planned": True,
    }


def replay_file(path: str, modules: dict, exclude=None) -> int:  # noqa: ANN001
    with open(path, encoding="utf-8") as f:
        doc = json.load(f)
    prop = doc["property"]
    mod = modules[prop]
    case = case_from_replay(doc)
    verdict = mod.run_case(case, parallel=runner.workers_default())
    if verdict.get("harness_error"):
        engine.log(f"HARNESS-ERROR during replay: {verdict['harness_error'][:500]}")
        return EXIT_HARNESS
    want = doc["violation_class"]
    for v in verdict.get("violations", []):
        if v["class"] == want and not (exclude is not None and exclude(v)):
            engine.log(f"reproduced: {v['class']} {json.dumps(fingerprint(v), sort_keys=True)[:400]}")
            engine.log(f"VIOLATION property={prop} replay={path}")
            return EXIT_VIOLATION
    engine.log(f"not reproduced: expected class {want}, got {[v['class'] for v in verdict.get('violations', [])]}")
    return EXIT_OK


# --------------------------------------------------------------------------- main flow


def run_check(mod, tier: str, n_cases: int | None = None, max_reports: int = 4) -> int:  # noqa: ANN001
    prop = mod.PROP
    seed = engine.verif_seed()
    t0 = time.monotonic()
    engine.log(f"VERIF_SEED={seed} property={prop} tier={tier} repo={runner.repo_dir()} workers={runner.workers_default()}")
    cases = mod.make_cases(seed, tier, n_cases)
    verdicts = engine.run_batch(cases, mod.run_case, progress=prop)

    harness_errors = [(c, v) for c, v in zip(cases, verdicts) if v.get("harness_error")]
    skipped = [(c, v) for c, v in zip(cases, verdicts) if v.get("skipped")]
    known = engine.load_known()
    groups: dict[str, list] = {}
    for c, v in zip(cases, verdicts):
        for viol in v.get("violations", []):
            groups.setdefault(group_key(viol), []).append((c, viol))

    n_violations = 0
    known_hits: dict[str, int] = {}
    reported = []
    parallel = runner.workers_default()
    for gk in sorted(groups):
        items = groups[gk]
        unknown = []
        for c, viol in items:
            hit = next((f for f in known["findings"] if matches_known(viol, f, prop)), None)
            if hit is not None:
                known_hits[hit.get("id", "?")] = known_hits.get(hit.get("id", "?"), 0) + 1
            else:
                unknown.append((c, viol))
        if not unknown:
            continue
        n_violations += len(unknown)
        if len(reported) >= max_reports:
            continue
        c, viol = unknown[0]
        budget = 10 if tier == "quick" else 30
        if viol["class"] in ("non-termination", "livelock"):
            budget = 2  # every probe of a hanging run costs a full watchdog period
        is_known = lambda v_: any(matches_known(v_, f, prop) for f in known["findings"])  # noqa: E731
        mc, mv, used = minimise(mod, c, viol, budget, parallel, exclude=is_known)
        path = engine.write_replay(prop, mc, mv, mc["histories"], minimised=used > 0)
        # a violation is only reported after its replay file reproduced it in fresh processes
        rc = replay_file(path, {prop: mod}, exclude=is_known) if getattr(mod, "CONFIRM_BY_REPLAY", True) else EXIT_VIOLATION
        if rc == EXIT_VIOLATION:
            reported.append(path)
            engine.log(f"  ({len(unknown)} case(s) in group {gk}; minimised with {used} probe runs)")
        elif rc == EXIT_OK and prop == "C08":
            # "identical between repeated runs" is part of C08: a difference that does not replay is itself a violation
            engine.log(f"VIOLATION property={prop} replay={path}")
            engine.log("  (difference did not reproduce on replay: non-repeatability, both observations are in the replay file)")
            reported.append(path)
        else:
            engine.log(f"NOTE: candidate violation {gk} did not reproduce from {path}; treated as harness error")
            harness_errors.append((c, {"harness_error": f"unreproducible candidate {gk}"}))
    for f in known["findings"]:
        if f.get("property") == prop and known_hits.get(f.get("id", "?")):
            engine.log(f"KNOWN-FINDING: property={prop} {f.get('id', '')} {f.get('text', '')} [{known_hits[f.get('id', '?')]} case(s) in this run]")

    wall = time.monotonic() - t0
    coverage = mod.coverage(cases, verdicts, tier, wall) if hasattr(mod, "coverage") else {}
    coverage.setdefault("cases", len(cases))
    coverage["cases_skipped"] = len(skipped)
    coverage["skipped_reasons"] = sorted({v["skipped"][:120] for _c, v in skipped})[:10]
    coverage["harness_errors"] = len(harness_errors)
    coverage["known_finding_hits"] = known_hits
    coverage["violation_groups"] = {k: len(v) for k, v in groups.items()}
    coverage["replay_files"] = reported
    coverage["components"] = engine.COMPONENTS
    coverage["simulated_time_s"] = 0
    coverage["simulated_time_note"] = "the tool has no timers, sleeps or deadlines; logical time = mutation event counter"
    engine.write_evidence(prop, tier, seed, coverage, wall, n_violations, getattr(mod, "ASSUMPTIONS", []))
    engine.log(f"{prop} {tier}: {len(cases)} cases, {coverage.get('evaluations', '?')} runs, {n_violations} violation(s), "
               f"{sum(known_hits.values())} known-finding hit(s), {len(harness_errors)} harness error(s), {wall:.0f}s")
    if reported:
        return EXIT_VIOLATION
    if harness_errors:
        for c, v in harness_errors[:5]:
            engine.log(f"HARNESS-ERROR case {c['index']}: {v['harness_error'][:800]}")
        if len(harness_errors) > max(1, len(cases) // 20):
            return EXIT_HARNESS
    return EXIT_OK
