"""Probe packages for C01: small input forms that used to abort the tool (each was either repaired by a
'fix:' commit or is listed as a finding), kept as a fixed regression workload next to the generated packages.
Every probe is one module of the package `mypkg`; `mypkg.other` provides a function and a class to refer to.
"""
from __future__ import annotations

PROBES = {
 "placeholder_names": "def on_event(_, __, value: int = 0, ___: str = '') -> int:\n    return value\n\nclass __:\n    def m(self, _x_, X__y, __z: int = 1) -> None:\n        pass\n\ndef _9lives(a1_: int, A_B_C: int = 2) -> None:\n    pass\n",
 "ret_list": "def f(x):\n    return [x]\n",
 "ret_binop": "def f(x):\n    return x + 1\n",
 "ret_dict": "def f(x):\n    return {1: x}\n",
 "ret_index": "def f(x):\n    return x[0]\n",
 "ret_compare": "def f(x):\n    return x > 1\n",
 "ret_lambda": "def f(x):\n    return lambda: x\n",
 "ret_fstring": "def f(x):\n    return f'{x}'\n",
 "ret_name": "def f(x):\n    return x\n",
 "ret_call": "def f(x):\n    return str(x)\n",
 "ret_await": "async def f(x):\n    return await x\n",
 "ret_listcomp": "def f(x):\n    return [i for i in x]\n",
 "ret_not": "def f(x):\n    return not x\n",
 "ret_none": "def f(x):\n    return None\n",
 "ret_star": "def f(x):\n    return (*x, 1)\n",
 "ret_cond_list": "def f(x):\n    return [1] if x else 2\n",
 "member_func": "import mypkg.other as o\n\ndef f():\n    return o.g()\n\nv = o.g\n",
 "member_func2": "import mypkg.other\n\nw = mypkg.other.g\n",
 "overload": "from typing import overload\n@overload\ndef f(x: int) -> int: ...\n@overload\ndef f(x: str) -> str: ...\ndef f(x):\n    return x\n",
 "overload_noimpl_cls": "from typing import overload\nclass A:\n    @overload\n    def f(self, x: int) -> int: ...\n    @overload\n    def f(self, x: str) -> str: ...\n    def f(self, x):\n        return x\n",
 "default_list": "def f(x=[1,2], y={}, z=(1,2), w=1+2, q=-1, r=not True):\n    pass\n",
 "default_attr": "import os\ndef f(x=os.sep, y=int('3')):\n    pass\n",
 "dataclass": "from dataclasses import dataclass\n@dataclass\nclass D:\n    a: int\n    b: str = 'x'\n",
 "namedtuple": "from typing import NamedTuple\nclass N(NamedTuple):\n    a: int\n    b: str\n",
 "protocol": "from typing import Protocol\nclass P(Protocol):\n    def m(self) -> int: ...\n",
 "nested_func": "def f():\n    def g():\n        return 1\n    return g\n",
 "global_var": "X: int = 1\nY = 'a'\n",
 "class_tuple_assign": "class A:\n    a, b = 1, 2\n    def __init__(self):\n        self.c, self.d = 3, 4\n",
 "attr_union": "class A:\n    x: int | str | None = None\n    y: 'A' = None\n",
 "self_return": "class A:\n    def m(self):\n        return self\n",
 "typed_dict": "from typing import TypedDict\nclass T(TypedDict):\n    a: int\n",
 "generic_new": "class A[T]:\n    def m(self, x: T) -> T: ...\n",
 "type_alias": "from typing import Union\nAlias = Union[int, str]\ndef f(x: Alias) -> Alias: ...\n",
 "callable": "from typing import Callable\ndef f(cb: Callable[[int, str], bool], cb2: Callable[..., None]) -> Callable[[], None]: ...\n",
 "abc": "from abc import ABC, abstractmethod\nclass A(ABC):\n    @abstractmethod\n    def m(self) -> int: ...\n",
 "exception_cls": "class MyErr(Exception):\n    pass\nclass Sub(MyErr):\n    def m(self): ...\n",
 "enum_tuple": "from enum import Enum\nclass E(Enum):\n    A, B = 1, 2\n    C = (1, 2)\n",
 "init_only": "",
 "decorated": "import functools\n@functools.lru_cache\ndef f(x: int) -> int: ...\nclass A:\n    @functools.cached_property\n    def p(self) -> int: ...\n",
 "property_setter": "class A:\n    @property\n    def p(self) -> int: ...\n    @p.setter\n    def p(self, v: int) -> None: ...\n",
 "star_args_typed": "def f(*args: tuple[int, str], **kw: dict[str, int]) -> None: ...\n",
 "final": "from typing import Final\nclass A:\n    X: Final = 1\n    Y: Final[int] = 2\n",
 "literal_mixed": "from typing import Literal\ndef f(a: Literal[1, 'a', True, None]) -> Literal[-1]: ...\n",
 "optional_callable": "from typing import Optional, Callable\ndef f(a: Optional[Callable[[int], int]] = None) -> None: ...\n",
 "kwonly_noann": "def f(*, a, b=1, **kw):\n    return a, b\n",
 "cond_none": "def f(x):\n    return None if x else 1\n",
 "ret_tuple_call": "def f(x):\n    return str(x), 1\n",
 "ret_ellipsis": "def f(x):\n    return ...\n",
 "ret_bytes": "def f(x):\n    return b'ab'\n",
 "ret_complex": "def f(x):\n    return 1j\n",
 "ret_set": "def f(x):\n    return {1, 2}\n",
 "ret_neg": "def f(x):\n    return -x\n",
 "ret_walrus": "def f(x):\n    return (y := x)\n",
 "ret_attr_self": "class A:\n    def __init__(self):\n        self.v = 1\n    def m(self):\n        return self.v\n",
}

PROBES.update({
 "doc_type_unresolved": 'def f(x):\n    """Do.\n\n    Parameters\n    ----------\n    x : ndarray\n        The x.\n\n    Returns\n    -------\n    ndarray\n        The y.\n    """\n    return x\n',
 "ret_in_loop_else": "def f(x):\n    for i in x:\n        return i\n    else:\n        return None\n",
 "ret_match": "def f(x):\n    match x:\n        case 1:\n            return 'a'\n        case _:\n            return 2\n",
 "ret_with": "def f(x):\n    with open(x) as fh:\n        return fh.read(), 1\n",
 "class_in_func": "def f():\n    class Local:\n        pass\n    return Local\n",
 "lambda_default": "def f(cb=lambda: 1, n=len('ab')):\n    return cb\n",
 "chained_cmp": "def f(a, b):\n    return a < b < 3, a and b, a or None\n",
 "str_concat": "def f(a):\n    return 'x' 'y', a.upper()\n",
 "star_expr_ret": "def f(a):\n    return [*a], {**a}\n",
 "yield_fn": "def f(a):\n    yield a\n    return 1\n",
 "final_bare_cls": "from typing import Final\nX: Final = 'a'\nclass A:\n    Y: Final = 2.5\n",
 "member_cls_and_func": "import mypkg.other as o\n\nclass B(o.K):\n    def m(self):\n        return o.g() + 1\n\nalias = o.K\nfn = o.g\n",
})

PROBES.update({
 "two_properties_with_setters": "class A:\n    @property\n    def p(self) -> int: ...\n    @p.setter\n    def p(self, v: int) -> None: ...\n    @property\n    def q(self) -> int: ...\n    @q.setter\n    def q(self, v: int) -> None: ...\n\nclass B:\n    @property\n    def p(self) -> str: ...\n    @p.setter\n    def p(self, v: str) -> None: ...\n",
 "overloads_without_impl": "from typing import overload, Protocol\nclass P(Protocol):\n    @overload\n    def f(self, x: int) -> int: ...\n    @overload\n    def f(self, x: str) -> str: ...\n\nclass Q(Protocol):\n    @overload\n    def f(self, x: int) -> int: ...\n    @overload\n    def f(self, x: str) -> str: ...\n",
})

# wave 15: declaration forms tried by hand; enum_odd, star_unpacking and index_assignment_targets aborted the tool (repaired by 255b0b9, f84993a)
PROBES.update({
 'class_kwargs_meta': 'class Meta(type):\n    def __new__(mcs, name, bases, ns, **kw):\n        return super().__new__(mcs, name, bases, ns)\n\nclass A(metaclass=Meta, flag=True):\n    x: int = 1\n',
 'slots_and_decorated_class': "import functools\n\ndef deco(cls):\n    return cls\n\n@deco\nclass S:\n    __slots__ = ('a', 'b')\n    def __init__(self, a: int, b: str) -> None:\n        self.a = a\n        self.b = b\n\n@functools.total_ordering\nclass T:\n    def __eq__(self, o: object) -> bool:\n        return True\n    def __lt__(self, o: 'T') -> bool:\n        return False\n",
 'type_checking_block': "from typing import TYPE_CHECKING\nif TYPE_CHECKING:\n    from mypkg.other import K\n    def only_typed(x: K) -> K: ...\nelse:\n    def only_typed(x):\n        return x\n\ndef uses(k: 'K') -> 'K':\n    return k\n",
 'try_import_fallback': 'try:\n    import numpy as np\nexcept ImportError:\n    np = None\n\ntry:\n    from mypkg.other import g\nexcept ImportError:\n    def g() -> int:\n        return 0\n\ndef f(a=np) -> int:\n    return g()\n',
 'global_and_augassign': 'COUNT = 0\n\ndef bump(n: int = 1) -> int:\n    global COUNT\n    COUNT += n\n    return COUNT\n\nclass C:\n    total: int = 0\n    def add(self, n: int) -> None:\n        self.total += n\n        C.total -= 1\n',
 'annotated_without_value': "class A:\n    x: int\n    y: 'list[A]'\n    def __init__(self) -> None:\n        self.z: float\n        self.w: str | None\n\nv: int\n",
 'star_unpacking': 'first, *rest = [1, 2, 3]\n\nclass A:\n    a, *b = (1, 2, 3)\n    def __init__(self, xs: list[int]) -> None:\n        self.h, *self.t = xs\n        (self.p, self.q), self.r = (1, 2), 3\n',
 'walrus_and_odd_defaults': "def f(a=(n := 3), b=-1.5e3, c=b'by', d=f'{1}', e=..., g=not None, h=1 if True else 2, i=[x for x in range(2)], j={1, 2}, k=print, l=int.__add__):\n    return a\n",
 'posonly_kwonly_mix': 'def f(a, b=1, /, c=2, *, d, e=3, **kw) -> None:\n    pass\n\ndef g(*, only: int) -> None:\n    pass\n\ndef h(a, /) -> None:\n    pass\n\nclass A:\n    def m(self, /, a, *, b=1) -> None:\n        pass\n    @staticmethod\n    def s(*args, **kwargs) -> None:\n        pass\n',
 'self_importing_module': 'import mypkg.self_importing_module as me\nfrom mypkg import self_importing_module\n\ndef f() -> int:\n    return 1\n\nalias = me.f\n',
 'same_named_base_other_module': 'import mypkg.other as o\n\nclass K(o.K):\n    def extra(self) -> int:\n        return 1\n\nclass J(K):\n    pass\n',
 'nested_generics_deep': 'def f(a: dict[str, list[tuple[int, dict[str, set[frozenset[int]]]]]], b: list[list[list[list[list[int]]]]] | None = None) -> tuple[tuple[tuple[int, str], float], ...]:\n    ...\n',
 'recursive_alias': "from typing import Union\nJson = Union[dict[str, 'Json'], list['Json'], str, int, None]\n\ndef load(x: Json) -> Json:\n    return x\n",
 'doc_type_odd_strings': 'def f(a, b, c, d, e):\n    """Do.\n\n    Parameters\n    ----------\n    a : list[int\n        unbalanced\n    b : int or (str or float)\n        nested or\n    c :\n        empty type\n    d : class\n        keyword as type\n    e : dict[str, list[int] | None] | tuple[int, ...], optional\n        long\n\n    Returns\n    -------\n    lambda\n        keyword\n    """\n    return a\n',
 'doc_type_odd_google': 'def f(a, b, c):\n    """Do.\n\n    Args:\n        a (list[int): unbalanced\n        b (): empty\n        c (int | (str, float)): tuple in union\n\n    Returns:\n        (int, str: broken\n    """\n    return a\n',
 'doc_type_odd_rest': 'def f(a, b):\n    """Do.\n\n    :param a: unbalanced\n    :type a: dict[str, \n    :param b: empty\n    :type b:\n    :rtype: ]int[\n    """\n    return a\n',
 'conditional_defs': "import sys\nif sys.version_info >= (3, 8):\n    def f(x: int) -> int:\n        return x\nelse:\n    def f(x: int) -> str:\n        return str(x)\n\nif sys.platform == 'win32':\n    class P:\n        a = 1\nelse:\n    class P:\n        b = 2\n",
 'dunder_all_odd': "__all__ = ['f'] + ['g']\n__all__ += ['A']\n\ndef f() -> None: ...\ndef g() -> None: ...\nclass A: ...\ndef hidden() -> None: ...\n",
 'enum_odd': "from enum import Enum, Flag, auto\n\nclass Color(Enum):\n    RED = auto()\n    GREEN = (1, 2)\n    BLUE = 'b'\n    def describe(self) -> str:\n        return self.name\n    @property\n    def is_red(self) -> bool:\n        return self is Color.RED\n\nclass Perm(Flag):\n    R = 4\n    W = 2\n    RW = R | W\n",
 'async_and_generators': 'from typing import AsyncIterator, Iterator\n\nasync def agen(n: int) -> AsyncIterator[int]:\n    for i in range(n):\n        yield i\n\ndef gen(n: int) -> Iterator[int]:\n    yield from range(n)\n\nclass A:\n    async def m(self) -> None:\n        pass\n    def __aiter__(self):\n        return self\n    async def __anext__(self) -> int:\n        raise StopAsyncIteration\n',
 'numpydoc_default_is_call': 'class Tuned:\n    """A tuned thing.\n\n    Parameters\n    ----------\n    cv : object, default=model_selection.splitters.StratifiedShuffleKFold(n_splits=5)\n        The splitter.\n\n    Attributes\n    ----------\n    best_ : dict, default=collections_extra.ordered.DefaultOrderedMapping(list)\n        The best.\n    """\n\n    def __init__(self, cv=None) -> None:\n        self.best_ = {}\n',
 'float_defaults_out_of_range': 'def bounds(lower: float = -1e400, upper: float = 1e999, eps: float = 1e-07, big: float = 1e22, nan_=float("nan")) -> float:\n    return lower\n\nclass B:\n    top: float = 1e999\n    def m(self, x=1e999) -> None:\n        pass\n',
 'index_assignment_targets': "class A:\n    d = {}\n    d['k'] = 1\n    def __init__(self):\n        self.m = {}\n        self.m['a'] = 1\n        self.lst = [1]\n        self.lst[0] = 2\n        self.o = A\n        self.o.x = 3\n",
})

# wave 16: more everyday declaration and docstring forms tried by hand (all complete on the current tree)
PROBES.update({
 'dataclass_fields': "from dataclasses import dataclass, field, InitVar\nfrom typing import ClassVar\n\n@dataclass(frozen=True, order=True)\nclass P:\n    x: int\n    y: list[int] = field(default_factory=list)\n    z: InitVar[int] = 0\n    count: ClassVar[int] = 0\n    _hidden: str = field(default='h', repr=False)\n\n    def __post_init__(self, z: int) -> None:\n        pass\n",
 'chained_assign': "a = b = 1\n\nclass A:\n    x = y = 2\n    key = lambda self: 1\n    def __init__(self) -> None:\n        self.p = self.q = 3\n        self.r: int = 4\n        self.r += 1\n        del self.r\n        for self.i in range(2):\n            pass\n        with open('f') as self.fh:\n            pass\n",
 'decorator_zoo': "import functools\nimport contextlib\nfrom abc import ABC, abstractmethod\nfrom typing import final\n\ndef route(path: str):\n    def deco(f):\n        return f\n    return deco\n\n@route('/x')\ndef handler(a: int) -> int:\n    return a\n\n@contextlib.contextmanager\ndef ctx(n: int):\n    yield n\n\nclass A(ABC):\n    @functools.cached_property\n    def cp(self) -> int:\n        return 1\n\n    @property\n    @abstractmethod\n    def ap(self) -> int: ...\n\n    @final\n    def fin(self) -> None: ...\n\n    @classmethod\n    @functools.lru_cache\n    def cm(cls, a: int = 1) -> int:\n        return a\n\n    @staticmethod\n    @route('/s')\n    def sm(a: int) -> int:\n        return a\n\n    @functools.singledispatchmethod\n    def sd(self, x) -> str:\n        return ''\n",
 'dunder_methods': "class V:\n    def __init__(self, x: float = 0.0) -> None:\n        self.x = x\n    def __call__(self, *a: int, **k: str) -> 'V':\n        return self\n    def __getitem__(self, i: int | slice) -> float:\n        return self.x\n    def __add__(self, o: 'V') -> 'V':\n        return self\n    def __iter__(self):\n        yield self.x\n    def __len__(self) -> int:\n        return 1\n    def __enter__(self):\n        return self\n    def __exit__(self, *exc) -> None:\n        pass\n    def __repr__(self) -> str:\n        return ''\n    __radd__ = __add__\n",
 'typing_zoo': "from typing import Annotated, Any, Awaitable, Callable, Concatenate, Literal, LiteralString, Never, ParamSpec, Self, Type, TypeGuard, TypeVar, NoReturn, ClassVar, Iterable, Mapping, Sequence\nimport enum\n\nP = ParamSpec('P')\nR = TypeVar('R')\n\nclass E(enum.Enum):\n    A = 1\n\ndef deco(f: Callable[P, R]) -> Callable[P, Awaitable[R]]: ...\ndef conc(f: Callable[Concatenate[int, P], R]) -> Callable[P, R]: ...\ndef ann(x: Annotated[int, 'meta'], y: Literal[E.A], z: LiteralString = '') -> TypeGuard[int]: ...\ndef nev() -> Never: ...\ndef nor() -> NoReturn: ...\ndef ty(a: type[int], b: Type[str], c: tuple[()], d: tuple[int, ...], e: Callable[[], Callable[[int], str]] | None = None) -> Any: ...\ndef coll(a: Iterable[int], b: Mapping[str, Sequence[float]]) -> None: ...\nclass S:\n    def me(self) -> Self:\n        return self\n    @classmethod\n    def make(cls) -> Self:\n        return cls()\n",
 'pep695': 'type IntList = list[int]\ntype Pair[T] = tuple[T, T]\n\ndef first[T](xs: list[T]) -> T:\n    return xs[0]\n\nclass Box[T: int, *Ts, **P]:\n    def get(self) -> T: ...\n\ndef use(a: IntList, b: Pair[str]) -> None: ...\n',
 'typeddict_required': 'from typing import TypedDict, Required, NotRequired, Unpack\n\nclass Opts(TypedDict, total=False):\n    a: Required[int]\n    b: NotRequired[str]\n\ndef f(**kw: Unpack[Opts]) -> Opts: ...\n',
 'main_guard_and_relative': "from . import other\nfrom .other import g as gee, K\nimport mypkg.other\nfrom mypkg import other as oth\n\ndef f() -> int:\n    return gee() + oth.g()\n\nif __name__ == '__main__':\n    def only_main() -> None: ...\n    print(f())\n",
 'default_value_zoo': 'import enum\nimport math\n\nclass C(enum.Enum):\n    R = 1\n\nSENTINEL = object()\n\ndef f(a=-1, b=+2, c=1j, d=10**30, e=float(\'inf\'), g=-math.inf, h=C.R, i=(1, \'a\', None), j={\'k\': [1]}, k=\'quo"te\\n\\ttab\', l=\'ünï\', m=b\'\\x00\', n=..., o=SENTINEL, p=1_000, q=0x1F, r=1e-9, s=None, t=True, u=[], v=(), w={}, x=set(), y=frozenset({1}), z=lambda x: x) -> None: ...\n',
 'numpydoc_sections': 'def f(a, b=1):\n    """Summary line.\n\n    Extended\n    description.\n\n    Parameters\n    ----------\n    a : array-like of shape (n_samples, n_features)\n        The a.\n    b : {\'x\', \'y\'} or None, default=None\n        The b.\n\n    Other Parameters\n    ----------------\n    **kwargs : dict\n        Extra.\n\n    Returns\n    -------\n    out : ndarray of shape (n,)\n        The out.\n    extra : int, optional\n        Another.\n\n    Yields\n    ------\n    int\n        Numbers.\n\n    Raises\n    ------\n    ValueError\n        If bad.\n\n    See Also\n    --------\n    g : Other.\n\n    Notes\n    -----\n    Some :math:`x^2`.\n\n    References\n    ----------\n    .. [1] Ref.\n\n    Examples\n    --------\n    >>> f(1)\n    2\n    >>> f(\n    ...     3)\n    4\n    """\n    return a\n',
 'google_sections': 'def f(a, b=1):\n    """Summary line.\n\n    Args:\n        a (int, optional): The a.\n            Continued.\n        b (Dict[str, List[int]]): The b.\n        *args: Var.\n        **kwargs: Kw.\n\n    Returns:\n        Tuple[int, str]: A pair.\n\n    Yields:\n        int: N.\n\n    Raises:\n        ValueError: If bad.\n\n    Note:\n        A note.\n\n    Example:\n        >>> f(1)\n        2\n\n    Todo:\n        * x\n    """\n    return a\n\nclass A:\n    """Class.\n\n    Attributes:\n        x (int): The x.\n        y: The y.\n    """\n    x = 1\n    y = 2\n',
 'rest_sections': 'def f(a, b=1):\n    """Summary line.\n\n    :param a: The a.\n    :type a: int or None\n    :param str b: The b, typed inline.\n    :keyword c: Keyword.\n    :raises ValueError: If bad.\n    :returns: The result.\n    :rtype: list(int)\n    :var x: A var.\n    :meta private:\n\n    .. note:: A note.\n\n    .. code-block:: python\n\n        f(1)\n    """\n    return a\n\nclass A:\n    """Class.\n\n    :ivar x: The x.\n    :vartype x: int\n    :cvar y: The y.\n    """\n    x = 1\n    y = 2\n',
 'nested_defs': "class Outer:\n    class Mid:\n        class Inner:\n            def m(self) -> 'Outer.Mid.Inner':\n                return self\n        def mk(self) -> 'Outer.Mid.Inner':\n            return Outer.Mid.Inner()\n    def method(self):\n        class Local:\n            pass\n        def helper(x: int) -> int:\n            return x\n        return Local, helper\n\ndef outer_fn():\n    def inner_fn():\n        class InFn:\n            attr = 1\n        return InFn\n    return inner_fn\n",
 'all_as_tuple': "__all__ = ('f', 'A')\n\ndef f() -> None: ...\nclass A: ...\n",
 'property_variants': 'class A:\n    def _get(self) -> int:\n        return 1\n    def _set(self, v: int) -> None:\n        pass\n    p = property(_get, _set, doc=\'The p.\')\n\n    @property\n    def q(self) -> int:\n        """The q."""\n        return 1\n\n    @q.setter\n    def q(self, v: int) -> None:\n        pass\n\n    @q.deleter\n    def q(self) -> None:\n        pass\n',
 'exceptions_and_inheritance': "class MyError(Exception):\n    def __init__(self, msg: str, code: int = 0) -> None:\n        super().__init__(msg)\n        self.code = code\n\nclass Multi(dict, MyError if False else object):\n    pass\n\nclass FromBuiltin(list[int]):\n    def total(self) -> int:\n        return sum(self)\n\nclass WithGenericBase(dict[str, 'WithGenericBase']):\n    pass\n",
})

OTHER = "def g() -> int:\n    return 1\n\n\nclass K:\n    pass\n"


# probes that need their own files next to the probe modules (path relative to the package -> text)
EXTRA_FILES = {
    "module_named_like_package": {"mypkg.py": "class SameName:\n    \"\"\"Doc of SameName.\"\"\"\n\n    def m(self, x: int) -> int:\n        \"\"\"Doc of m.\"\"\"\n        ...\n",
                                  "subp/__init__.py": "", "subp/subp.py": "def same_name_fn(a: int) -> int:\n    \"\"\"Doc.\"\"\"\n    ...\n"},
    "utf8_bom_file": {"with_bom.py": "\ufeffclass Bom:\n    \"\"\"Doc of Bom.\"\"\"\n\n    def m(self) -> int:\n        ...\n"},
}
EXTRA_FILES.update({
    'reexport_cycle': {'cyc_a/__init__.py': 'from mypkg.cyc_b import thing_b\nfrom ._a import thing_a\n', 'cyc_a/_a.py': 'def thing_a() -> int:\n    return 1\n', 'cyc_b/__init__.py': 'from ._b import thing_b\n\ndef late():\n    from mypkg.cyc_a import thing_a\n    return thing_a\n', 'cyc_b/_b.py': 'def thing_b() -> int:\n    return 2\n'},
})
PROBES.update({"module_named_like_package": "", "utf8_bom_file": "", "reexport_cycle": ""})


def probe_package(names: list[str]) -> dict:
    files = {"mypkg/__init__.py": "", "mypkg/other.py": OTHER}
    for n in names:
        for rel, text in EXTRA_FILES.get(n, {}).items():
            files[f"mypkg/{rel}"] = text
    for n in names:
        if PROBES[n]:
            files[f"mypkg/p_{n}.py"] = PROBES[n]
    for p, t in files.items():
        compile(t.lstrip("\ufeff"), p, "exec")
    return {"files": files, "src_rel": "mypkg", "top": "mypkg", "features": ["PROBES", *names], "doc_style": "NUMPYDOC",
            "meta": {"tokens": {}, "probes": {}}, "name": "probes-" + "+".join(names)}
