"""Probe packages for C01: small input forms that used to abort the tool (each was either repaired by a
'fix:' commit or is listed as a finding), kept as a fixed regression workload next to the generated packages.
Every probe is one module of the package `mypkg`; `mypkg.other` provides a function and a class to refer to.
"""
from __future__ import annotations

PROBES = {
 "placeholder_names": "def on_event(_, __, value: int = 0, ___: str = '') -> int:\n    return value\n\nclass __:\n    def m(self, _x_, X__y, __z: int = 1) -> None:\n        pass\n\ndef _9lives(a1_: int, A_B_C: int = 2) -> None:\n    pass\n",
 "ret_list": "def f(x):\n    return [x]\n",
 "ret_binop": "def f(x):\n    return x + 1\n",
 "ret_dict": "def f(x):\n    return {1: x}\n",
 "ret_index": "def f(x):\n    return x[0]\n",
 "ret_compare": "def f(x):\n    return x > 1\n",
 "ret_lambda": "def f(x):\n    return lambda: x\n",
 "ret_fstring": "def f(x):\n    return f'{x}'\n",
 "ret_name": "def f(x):\n    return x\n",
 "ret_call": "def f(x):\n    return str(x)\n",
 "ret_await": "async def f(x):\n    return await x\n",
 "ret_listcomp": "def f(x):\n    return [i for i in x]\n",
 "ret_not": "def f(x):\n    return not x\n",
 "ret_none": "def f(x):\n    return None\n",
 "ret_star": "def f(x):\n    return (*x, 1)\n",
 "ret_cond_list": "def f(x):\n    return [1] if x else 2\n",
 "member_func": "import mypkg.other as o\n\ndef f():\n    return o.g()\n\nv = o.g\n",
 "member_func2": "import mypkg.other\n\nw = mypkg.other.g\n",
 "overload": "from typing import overload\n@overload\ndef f(x: int) -> int: ...\n@overload\ndef f(x: str) -> str: ...\ndef f(x):\n    return x\n",
 "overload_noimpl_cls": "from typing import overload\nclass A:\n    @overload\n    def f(self, x: int) -> int: ...\n    @overload\n    def f(self, x: str) -> str: ...\n    def f(self, x):\n        return x\n",
 "default_list": "def f(x=[1,2], y={}, z=(1,2), w=1+2, q=-1, r=not True):\n    pass\n",
 "default_attr": "import os\ndef f(x=os.sep, y=int('3')):\n    pass\n",
 "dataclass": "from dataclasses import dataclass\n@dataclass\nclass D:\n    a: int\n    b: str = 'x'\n",
 "namedtuple": "from typing import NamedTuple\nclass N(NamedTuple):\n    a: int\n    b: str\n",
 "protocol": "from typing import Protocol\nclass P(Protocol):\n    def m(self) -> int: ...\n",
 "nested_func": "def f():\n    def g():\n        return 1\n    return g\n",
 "global_var": "X: int = 1\nY = 'a'\n",
 "class_tuple_assign": "class A:\n    a, b = 1, 2\n    def __init__(self):\n        self.c, self.d = 3, 4\n",
 "attr_union": "class A:\n    x: int | str | None = None\n    y: 'A' = None\n",
 "self_return": "class A:\n    def m(self):\n        return self\n",
 "typed_dict": "from typing import TypedDict\nclass T(TypedDict):\n    a: int\n",
 "generic_new": "class A[T]:\n    def m(self, x: T) -> T: ...\n",
 "type_alias": "from typing import Union\nAlias = Union[int, str]\ndef f(x: Alias) -> Alias: ...\n",
 "callable": "from typing import Callable\ndef f(cb: Callable[[int, str], bool], cb2: Callable[..., None]) -> Callable[[], None]: ...\n",
 "abc": "from abc import ABC, abstractmethod\nclass A(ABC):\n    @abstractmethod\n    def m(self) -> int: ...\n",
 "exception_cls": "class MyErr(Exception):\n    pass\nclass Sub(MyErr):\n    def m(self): ...\n",
 "enum_tuple": "from enum import Enum\nclass E(Enum):\n    A, B = 1, 2\n    C = (1, 2)\n",
 "init_only": "",
 "decorated": "import functools\n@functools.lru_cache\ndef f(x: int) -> int: ...\nclass A:\n    @functools.cached_property\n    def p(self) -> int: ...\n",
 "property_setter": "class A:\n    @property\n    def p(self) -> int: ...\n    @p.setter\n    def p(self, v: int) -> None: ...\n",
 "star_args_typed": "def f(*args: tuple[int, str], **kw: dict[str, int]) -> None: ...\n",
 "final": "from typing import Final\nclass A:\n    X: Final = 1\n    Y: Final[int] = 2\n",
 "literal_mixed": "from typing import Literal\ndef f(a: Literal[1, 'a', True, None]) -> Literal[-1]: ...\n",
 "optional_callable": "from typing import Optional, Callable\ndef f(a: Optional[Callable[[int], int]] = None) -> None: ...\n",
 "kwonly_noann": "def f(*, a, b=1, **kw):\n    return a, b\n",
 "cond_none": "def f(x):\n    return None if x else 1\n",
 "ret_tuple_call": "def f(x):\n    return str(x), 1\n",
 "ret_ellipsis": "def f(x):\n    return ...\n",
 "ret_bytes": "def f(x):\n    return b'ab'\n",
 "ret_complex": "def f(x):\n    return 1j\n",
 "ret_set": "def f(x):\n    return {1, 2}\n",
 "ret_neg": "def f(x):\n    return -x\n",
 "ret_walrus": "def f(x):\n    return (y := x)\n",
 "ret_attr_self": "class A:\n    def __init__(self):\n        self.v = 1\n    def m(self):\n        return self.v\n",
}

PROBES.update({
 "doc_type_unresolved": 'def f(x):\n    """Do.\n\n    Parameters\n    ----------\n    x : ndarray\n        The x.\n\n    Returns\n    -------\n    ndarray\n        The y.\n    """\n    return x\n',
 "ret_in_loop_else": "def f(x):\n    for i in x:\n        return i\n    else:\n        return None\n",
 "ret_match": "def f(x):\n    match x:\n        case 1:\n            return 'a'\n        case _:\n            return 2\n",
 "ret_with": "def f(x):\n    with open(x) as fh:\n        return fh.read(), 1\n",
 "class_in_func": "def f():\n    class Local:\n        pass\n    return Local\n",
 "lambda_default": "def f(cb=lambda: 1, n=len('ab')):\n    return cb\n",
 "chained_cmp": "def f(a, b):\n    return a < b < 3, a and b, a or None\n",
 "str_concat": "def f(a):\n    return 'x' 'y', a.upper()\n",
 "star_expr_ret": "def f(a):\n    return [*a], {**a}\n",
 "yield_fn": "def f(a):\n    yield a\n    return 1\n",
 "final_bare_cls": "from typing import Final\nX: Final = 'a'\nclass A:\n    Y: Final = 2.5\n",
 "member_cls_and_func": "import mypkg.other as o\n\nclass B(o.K):\n    def m(self):\n        return o.g() + 1\n\nalias = o.K\nfn = o.g\n",
})

PROBES.update({
 "two_properties_with_setters": "class A:\n    @property\n    def p(self) -> int: ...\n    @p.setter\n    def p(self, v: int) -> None: ...\n    @property\n    def q(self) -> int: ...\n    @q.setter\n    def q(self, v: int) -> None: ...\n\nclass B:\n    @property\n    def p(self) -> str: ...\n    @p.setter\n    def p(self, v: str) -> None: ...\n",
 "overloads_without_impl": "from typing import overload, Protocol\nclass P(Protocol):\n    @overload\n    def f(self, x: int) -> int: ...\n    @overload\n    def f(self, x: str) -> str: ...\n\nclass Q(Protocol):\n    @overload\n    def f(self, x: int) -> int: ...\n    @overload\n    def f(self, x: str) -> str: ...\n",
})

OTHER = "def g() -> int:\n    return 1\n\n\nclass K:\n    pass\n"


# probes that need their own files next to the probe modules (path relative to the package -> text)
EXTRA_FILES = {
    "module_named_like_package": {"mypkg.py": "class SameName:\n    \"\"\"Doc of SameName.\"\"\"\n\n    def m(self, x: int) -> int:\n        \"\"\"Doc of m.\"\"\"\n        ...\n",
                                  "subp/__init__.py": "", "subp/subp.py": "def same_name_fn(a: int) -> int:\n    \"\"\"Doc.\"\"\"\n    ...\n"},
    "utf8_bom_file": {"with_bom.py": "\ufeffclass Bom:\n    \"\"\"Doc of Bom.\"\"\"\n\n    def m(self) -> int:\n        ...\n"},
}
PROBES.update({"module_named_like_package": "", "utf8_bom_file": ""})


def probe_package(names: list[str]) -> dict:
    files = {"mypkg/__init__.py": "", "mypkg/other.py": OTHER}
    for n in names:
        for rel, text in EXTRA_FILES.get(n, {}).items():
            files[f"mypkg/{rel}"] = text
    for n in names:
        if PROBES[n]:
            files[f"mypkg/p_{n}.py"] = PROBES[n]
    for p, t in files.items():
        compile(t.lstrip("\ufeff"), p, "exec")
    return {"files": files, "src_rel": "mypkg", "top": "mypkg", "features": ["PROBES", *names], "doc_style": "NUMPYDOC",
            "meta": {"tokens": {}, "probes": {}}, "name": "probes-" + "+".join(names)}
