"""Layer C for C13: histories of docstring queries against ONE parser (whose one-entry cache is
the state under test), judged against a cold reference: the answer of a brand-new parser instance
that is asked only that one query.

1. one real get_api with a recording proxy around the parser built by create_docstring_parser
   -> Q, the real queries (with real mypy nodes) in walker order, and the answers the real
   pipeline got;
2. reference answers from cold parser instances (the immutable griffe tree is shared through a
   memo on the `load` name, the parser's own cache - the state under test - is always cold);
3. seeded histories over Q on fresh parser instances; every answer must equal the reference.
"""
from __future__ import annotations

import random
from pathlib import Path

METHODS = (
    "get_class_documentation",
    "get_function_documentation",
    "get_parameter_documentation",
    "get_attribute_documentation",
    "get_result_documentation",
)


def _key(method: str, args: tuple, kwargs: dict) -> str:
    parts = []
    for a in list(args) + [kwargs[k] for k in sorted(kwargs)]:
        fn = getattr(a, "fullname", None)
        parts.append(fn if isinstance(fn, str) else repr(a))
    return f"{method}({', '.join(parts)})"


def _show(ans: object) -> str:
    return repr(ans)[:600]


def run(job: dict, state: dict, child) -> dict:  # noqa: ANN001
    import safeds_stubgen.api_analyzer._get_api as ga
    from safeds_stubgen.api_analyzer import TypeSourcePreference, TypeSourceWarning, get_api
    from safeds_stubgen.docstring_parsing import DocstringStyle

    opts = job.get("options") or {}
    style = DocstringStyle.from_string(opts.get("docstyle") or "PLAINTEXT")
    res: dict = {"outcome": "completed", "mismatches": [], "stats": {}}

    # --- memo on the griffe loader used by the parser module (falls back to real loads if the name is gone)
    load_memo: dict = {}
    memo_state = {"installed": False, "hits": 0, "where": None}
    try:
        import safeds_stubgen.docstring_parsing._docstring_parser as dp

        if hasattr(dp, "load"):
            inner_load = dp.load
            memo_state["where"] = "parser-module"
        else:
            # the parser module calls `griffe.load(...)` through the griffe package: memoise it there
            import griffe as _griffe

            inner_load = _griffe.load
            memo_state["where"] = "griffe-package"

        def memo_load(*args, **kwargs):  # noqa: ANN002, ANN003, ANN202
            k = repr((args, sorted(kwargs.items(), key=lambda kv: kv[0])))
            if k in load_memo:
                memo_state["hits"] += 1
                return load_memo[k]
            v = inner_load(*args, **kwargs)
            load_memo[k] = v
            return v

        memo_state["installed"] = True
    except Exception:  # noqa: BLE001
        dp = None
        memo_load = None

    recorded: list[dict] = []
    ctx: dict = {}
    real_factory = ga.create_docstring_parser

    class Recorder:
        def __init__(self, inner: object) -> None:
            self._inner = inner

        def __getattr__(self, name: str):  # noqa: ANN204
            target = getattr(self._inner, name)
            if name not in METHODS:
                return target

            def call(*args, **kwargs):  # noqa: ANN002, ANN003, ANN202
                rec = {"method": name, "args": args, "kwargs": kwargs, "key": _key(name, args, kwargs)}
                try:
                    rec["answer"] = target(*args, **kwargs)
                except BaseException as e:  # noqa: BLE001
                    rec["raised"] = repr(e)[:300]
                    recorded.append(rec)
                    raise
                recorded.append(rec)
                return rec["answer"]

            return call

    def factory(style, package_path):  # noqa: ANN001, ANN202
        ctx["style"], ctx["package_path"] = style, package_path
        return Recorder(real_factory(style=style, package_path=package_path))

    ga.create_docstring_parser = factory
    state["active"] = True
    try:
        get_api(
            root=Path(job["src_dir"]),
            docstring_style=style,
            is_test_run=bool(opts.get("tr")),
            type_source_preference=TypeSourcePreference.from_string(opts.get("tsp") or "CODE"),
            type_source_warning=TypeSourceWarning.from_string(opts.get("tsw") or "WARN"),
        )
    except BaseException as e:  # noqa: BLE001
        state["active"] = False
        ga.create_docstring_parser = real_factory
        res["outcome"] = "rejected" if (isinstance(e, ValueError) and str(e) == "No files found to analyse.") else "failed"
        res["exception"] = child._exc_info(e, job["repo_src"])
        return res
    finally:
        ga.create_docstring_parser = real_factory
    state["active"] = False  # the rest is pure in-memory querying: no seams needed (and the livelock probe must not count)

    if dp is not None and memo_load is not None:
        if memo_state["where"] == "parser-module":
            dp.load = memo_load
        else:
            import griffe as _griffe

            _griffe.load = memo_load

    def new_parser():  # noqa: ANN202
        return real_factory(style=ctx["style"], package_path=ctx["package_path"])

    # --- distinct queries and cold references
    queries: dict[str, dict] = {}
    for rec in recorded:
        queries.setdefault(rec["key"], rec)
    refs: dict[str, object] = {}
    excluded = 0
    if not memo_state["installed"] and len(queries) > 60:
        # every cold reference costs a real griffe load: keep a seeded sample of the queries (the rest is not judged)
        keep = set(random.Random(job.get("history_seed", 0)).sample(sorted(queries), 60))
        queries = {k: q for k, q in queries.items() if k in keep}
        res["stats"]["sampled_queries_without_memo"] = 60
    for k, q in queries.items():
        try:
            refs[k] = getattr(new_parser(), q["method"])(*q["args"], **q["kwargs"])
        except BaseException:  # noqa: BLE001
            excluded += 1
    keys = sorted(refs)
    res["stats"].update({"recorded_queries": len(recorded), "distinct_queries": len(queries), "reference_raised_excluded": excluded,
                         "load_memo_installed": memo_state["installed"], "load_memo_where": memo_state["where"], "by_method": {}})
    for k in keys:
        m = queries[k]["method"]
        res["stats"]["by_method"][m] = res["stats"]["by_method"].get(m, 0) + 1

    def mismatch(kind: str, k: str, got: object, hist: str, pos: int, window: list[str]) -> None:
        if len(res["mismatches"]) < 8:
            res["mismatches"].append({"kind": kind, "query": k, "expected": _show(refs[k]), "got": _show(got), "history": hist, "position": pos,
                                      "previous_queries": window[-4:]})
        res["stats"]["mismatch_total"] = res["stats"].get("mismatch_total", 0) + 1

    # --- history 0: what the real pipeline saw (one shared parser, walker order)
    ops = 0
    prev: list[str] = []
    for i, rec in enumerate(recorded):
        if rec["key"] in refs and "answer" in rec:
            ops += 1
            if rec["answer"] != refs[rec["key"]]:
                mismatch("pipeline", rec["key"], rec["answer"], "walker-order (real get_api)", i, prev)
        prev.append(rec["key"])

    # --- seeded histories on fresh parsers
    rnd = random.Random(job.get("history_seed", 0))
    n_hist = int(job.get("n_histories", 12))
    hist_len = int(job.get("history_len", 250))
    documented = []
    undocumented = []
    for k in keys:
        r = refs[k]
        text = getattr(r, "full_docstring", None)
        if text is None:
            text = getattr(r, "description", "") if not isinstance(r, list) else ("x" if r else "")
        (documented if text else undocumented).append(k)
    by_short: dict[str, list[str]] = {}
    for k in keys:
        q = queries[k]
        a0 = q["args"][0] if q["args"] else next(iter(q["kwargs"].values()), "")
        name = getattr(a0, "fullname", a0)
        short = str(name).replace("/", ".").split(".")[-1]
        by_short.setdefault(short, []).append(k)
    homonym_groups = [v for v in by_short.values() if len(v) >= 2]
    strategies = ["shuffle", "aba", "doc_undoc", "homonyms", "repeat", "window_shuffle", "reverse", "two_parsers"]
    strat_count: dict[str, int] = {}
    for h in range(n_hist):
        strat = strategies[h % len(strategies)] if keys else "none"
        seq: list[str] = []
        if strat == "shuffle":
            seq = [rnd.choice(keys) for _ in range(hist_len)]
        elif strat == "aba":
            while len(seq) < hist_len:
                a, b = rnd.choice(keys), rnd.choice(keys)
                seq += rnd.choice([[a, b, a], [a, b, b, a], [a, a, b, a, b]])
        elif strat == "doc_undoc":
            while len(seq) < hist_len and documented:
                a = rnd.choice(documented)
                b = rnd.choice(undocumented) if undocumented else rnd.choice(keys)
                seq += rnd.choice([[a, b, b], [a, b, a, b], [b, a, b, b]])
            if not seq:
                seq = [rnd.choice(keys) for _ in range(hist_len)]
        elif strat == "homonyms":
            while len(seq) < hist_len:
                g = rnd.choice(homonym_groups) if homonym_groups else keys
                seq += [rnd.choice(g) for _ in range(4)]
        elif strat == "repeat":
            while len(seq) < hist_len:
                a = rnd.choice(keys)
                seq += [a] * rnd.randint(2, 3)
        elif strat == "window_shuffle":
            # the real order, locally perturbed: neighbours swap places, as when modules are analysed in another order
            order = [rec["key"] for rec in recorded if rec["key"] in refs]
            start = rnd.randrange(0, max(1, len(order) - hist_len)) if len(order) > hist_len else 0
            seq = order[start : start + hist_len]
            for i in range(0, len(seq) - 3, 3):
                w = seq[i : i + 3]
                rnd.shuffle(w)
                seq[i : i + 3] = w
        elif strat == "two_parsers":
            # the queries alternate between TWO parser instances: state shared between instances (a cache at class or
            # module level) would let one instance answer from what the other one saw
            while len(seq) < hist_len:
                a = rnd.choice(documented) if documented else rnd.choice(keys)
                b = rnd.choice(keys)
                seq += [a, b, b, a]
        elif strat == "reverse":
            order = [rec["key"] for rec in recorded if rec["key"] in refs]
            start = rnd.randrange(0, max(1, len(order) - hist_len)) if len(order) > hist_len else 0
            seq = order[start : start + hist_len][::-1]
        strat_count[strat] = strat_count.get(strat, 0) + 1
        parser = new_parser()
        parsers = [parser, new_parser()] if strat == "two_parsers" else [parser]
        window: list[str] = []
        for pos, k in enumerate(seq[:hist_len]):
            q = queries[k]
            ops += 1
            parser = parsers[pos % len(parsers)]
            try:
                got = getattr(parser, q["method"])(*q["args"], **q["kwargs"])
            except BaseException as e:  # noqa: BLE001
                mismatch("raised-in-history", k, repr(e)[:300], f"{strat}#{h}", pos, window)
                window.append(k)
                continue
            if got != refs[k]:
                mismatch("history", k, got, f"{strat}#{h}", pos, window)
            window.append(k)
    res["stats"].update({"ops": ops, "histories": n_hist + 1, "strategies": strat_count, "documented_queries": len(documented),
                         "undocumented_queries": len(undocumented), "homonym_groups": len(homonym_groups), "load_memo_hits": memo_state["hits"]})
    return res
