"""Self-tests of the machinery (DESIGN §3.6, §7).

determinism: the same case seeds executed in fresh interpreters, with 1 and with N workers and
under two different PYTHONHASHSEED values *of the harness*, must give identical per-case digests
sha256(event log || outcome || output tree).
"""
from __future__ import annotations

import json
import os
import subprocess
import sys
import time

from . import engine, runner, workload
from .seeds import H, digest, rng


def _case(seed: int, idx: int) -> dict:
    cs = H(seed, "selftest", idx)
    pkg = workload.generate_package(H(cs, "pkg"))
    r = rng(cs, "opts")
    options = workload.pick_options(r, pkg)
    sigma = engine.sample_sigma(rng(cs, "sched"), list(runner.SIGMA_DIMS))
    faults = []
    rf = rng(cs, "fault")
    if idx % 3 == 0:
        kind = rf.choice(["enospc_open", "eio_write", "crash", "torn_crash", "erofs_mkdir", "enospc_write_short"])
        op = {"enospc_open": "open", "eio_write": "write", "crash": "close", "torn_crash": "write", "erofs_mkdir": "mkdir", "enospc_write_short": "write"}[kind]
        faults = [{"sel": {"op": op, "n": rf.randint(1, 6)}, "kind": kind}]
    return {"index": idx, "case_seed": cs, "pkg": pkg, "options": options, "histories": [[{"sigma": sigma, "faults": faults}]]}


def _digest_case(case: dict) -> str:
    res = runner.run_history(f"st{case['index']}", case["pkg"], case["options"], case["histories"][0])[0]
    evs = [[e.get("op"), e.get("path"), e.get("nbytes"), e.get("sha"), e.get("fault")] for e in res["event_log"]]
    exc = res.get("exception") or {}
    tree = {k: v.get("sha") or v.get("link") or "dir" for k, v in res["out_tree"].items()}
    return digest([evs, res["outcome"], exc.get("type"), exc.get("message"), exc.get("innermost_tool"), tree, res.get("fired")])


def digests(n: int, workers: int, seed: int) -> list[str]:
    cases = [_case(seed, i) for i in range(n)]
    return engine.run_batch(cases, _digest_case, workers=workers)


def main(name: str, tier: str) -> int:
    if name == "_digests":
        n, workers, seed = int(sys.argv[3]), int(sys.argv[4]), int(sys.argv[5])
        sys.stdout.write("DIGESTS " + json.dumps(digests(n, workers, seed)) + "\n")
        return 0
    if name != "determinism":
        engine.log(f"unknown selftest {name}")
        return 2
    seed = engine.verif_seed()
    n = 48 if tier == "quick" else 200
    n1 = 8 if tier == "quick" else 24
    t0 = time.monotonic()
    configs = [("hs0-w16-a", "0", 16, n), ("hs0-w16-b", "0", 16, n), ("hs12345-w16", "12345", 16, n), ("hs0-w1", "0", 1, n1), ("hs777-w4", "777", 4, n)]
    out = {}
    for label, hs, w, k in configs:
        env = dict(os.environ, PYTHONHASHSEED=hs)
        p = subprocess.run([sys.executable, "-m", "vsim.selftest", "_digests", "x", str(k), str(w), str(seed)], cwd=engine.VERIF_DIR,  # noqa: S603
                           env=env, capture_output=True, text=True, check=False)
        line = next((ln for ln in p.stdout.splitlines() if ln.startswith("DIGESTS ")), None)
        if line is None:
            engine.log(f"selftest run {label} failed: {p.stdout[-500:]} {p.stderr[-1500:]}")
            return 2
        out[label] = json.loads(line[len("DIGESTS ") :])
        engine.log(f"{label}: {k} cases, {time.monotonic() - t0:.0f}s")
    base = out["hs0-w16-a"]
    bad = 0
    for label, ds in out.items():
        for i, d in enumerate(ds):
            if d != base[i]:
                bad += 1
                engine.log(f"DIVERGENCE case {i}: {label} {d[:12]} vs base {base[i][:12]}")
    pairs = sum(len(ds) for ds in out.values()) - len(base)
    engine.log(f"determinism: {pairs} digest pairs compared, {bad} divergences, {time.monotonic() - t0:.0f}s")
    return 0 if bad == 0 else 1


if __name__ == "__main__":
    code = main(sys.argv[1], "quick")
    sys.stdout.flush()
    os._exit(code)
