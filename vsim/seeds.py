"""One integer decides everything: sha256-derived sub-seeds and a PRNG built on them.

Never uses Python's hash(), the wall clock or set iteration order.
"""
from __future__ import annotations

import hashlib
import random

DEFAULT_SEED = 20261003


def H(*parts: object) -> int:
    """Derive a 64-bit integer from the parts (stable across interpreters and hash seeds)."""
    m = hashlib.sha256()
    for p in parts:
        m.update(repr(p).encode("utf-8"))
        m.update(b"\x1f")
    return int.from_bytes(m.digest()[:8], "big")


def rng(*parts: object) -> random.Random:
    """Mersenne twister seeded from H(parts); its stream is a pure function of the parts."""
    return random.Random(H(*parts))


def digest(obj: object) -> str:
    """sha256 hex digest of a canonical JSON rendering of obj."""
    import json

    return hashlib.sha256(json.dumps(obj, sort_keys=True, ensure_ascii=True, default=str).encode()).hexdigest()
