"""Parent side of the simulator: sandboxes, schedule vectors -> concrete child jobs, process
control, tree snapshots, and a deterministic (index-ordered) parallel map over histories.

A *history* is a list of steps executed one after the other in ONE sandbox (so the output
directory and cwd survive from step to step); a *step* is one child process = one simulated run
of the real tool.  Nothing here draws random numbers: schedules and fault plans are passed in.
"""
from __future__ import annotations

import atexit
import hashlib
import json
import os
import re
import shutil
import subprocess
import sys
import threading
import time
from concurrent.futures import ThreadPoolExecutor
from pathlib import Path

HARNESS_DIR = os.path.dirname(os.path.abspath(__file__))
VERIF_DIR = os.path.dirname(HARNESS_DIR)
PYTHON = os.environ.get("VERIF_PYTHON", "/venv/bin/python")


def repo_dir() -> str:
    return os.path.realpath(os.environ.get("VERIF_REPO", "/repo"))


def repo_src() -> str:
    return os.path.join(repo_dir(), "src")


def _base_tmp() -> str:
    for cand in ("/dev/shm", "/tmp"):  # noqa: S108
        if os.path.isdir(cand) and os.access(cand, os.W_OK):
            return cand
    import tempfile

    return tempfile.gettempdir()


_RUN_TAG = f"vsim-{os.getpid()}"
_RUN_BASE = os.path.join(_base_tmp(), _RUN_TAG)
_cleanup_registered = False
_lock = threading.Lock()


def run_base() -> str:
    global _cleanup_registered
    with _lock:
        if not _cleanup_registered:
            os.makedirs(_RUN_BASE, exist_ok=True)
            atexit.register(lambda: shutil.rmtree(_RUN_BASE, ignore_errors=True))
            _cleanup_registered = True
    return _RUN_BASE


CANONICAL_SIGMA = {
    "hashseed": 0,
    "enum": {"mode": "sorted"},
    "obj": {"mode": "counter"},
    "cwd": "root",
    "invocation": "console",
    "src_spelling": "abs",
    "out_spelling": "abs",
    "env": {"LANG": "C.UTF-8", "LC_ALL": "C.UTF-8", "umask": 0o022},
}

SIGMA_DIMS = ["hashseed", "enum", "obj", "cwd", "invocation", "src_spelling", "out_spelling", "env"]


def full_sigma(sigma: dict | None) -> dict:
    s = json.loads(json.dumps(CANONICAL_SIGMA))
    for k, v in (sigma or {}).items():
        s[k] = v
    return s


# --------------------------------------------------------------------------- sandbox


class Sandbox:
    """Real directory tree on tmpfs.  Layout is fixed (see DESIGN §3.2):

    root/bin  root/home  root/S/work/proj/<package tree>  root/S/work/proj_link -> proj
    root/outs/out  root/outs_link -> outs  root/elsewhere  root/ro
    """

    def __init__(self, tag: str, pkg: dict) -> None:
        self.base = os.path.join(run_base(), tag)
        if os.path.exists(self.base):
            shutil.rmtree(self.base)
        self.root = os.path.join(self.base, "root")
        self.ctl = os.path.join(self.base, "ctl")
        os.makedirs(self.ctl)
        for d in ("bin", "home", "tmp", "S/work/proj", "outs", "elsewhere", "ro", "decoy_pkg", "decoy_file"):
            os.makedirs(os.path.join(self.root, d))
        os.symlink("proj", os.path.join(self.root, "S/work/proj_link"))
        os.symlink("outs", os.path.join(self.root, "outs_link"))
        # a symlink into a directory one level BELOW outs: '<root>/deep_link/..' is outs, lexically it is <root>
        os.makedirs(os.path.join(self.root, "outs/deep"), exist_ok=True)
        os.symlink("outs/deep", os.path.join(self.root, "deep_link"))
        self.root = os.path.realpath(self.root)
        self.pkg = pkg
        self.proj = os.path.join(self.root, "S/work/proj")
        for rel, text in sorted(pkg["files"].items()):
            p = os.path.join(self.proj, rel)
            os.makedirs(os.path.dirname(p), exist_ok=True)
            with open(p, "w", encoding="utf-8", newline="") as f:
                f.write(text)
        self.src = os.path.join(self.proj, pkg["src_rel"])
        # decoys: working directories that hold something else under the name of the analysed top-level package
        top = pkg.get("top") or pkg["src_rel"].split("/")[0]
        self._make_decoys(top)
        self.out = os.path.join(self.root, "outs/out")
        self.step_no = 0

    def _make_decoys(self, top: str) -> None:
        d = os.path.join(self.root, "decoy_pkg", top)
        os.makedirs(d, exist_ok=True)
        with open(os.path.join(d, "__init__.py"), "w", encoding="utf-8") as f:
            f.write("")
        with open(os.path.join(d, "unrelated_decoy.py"), "w", encoding="utf-8") as f:
            f.write("def decoy_only(a: int) -> int:\n    return a\n")
        with open(os.path.join(self.root, "decoy_file", top), "w", encoding="utf-8") as f:
            f.write("not a package\n")
        # ... and the configuration files of somebody else's project (mypy would pick them up from the working directory)
        for name, text in (("mypy.ini", "[mypy]\nimplicit_optional = True\nstrict_optional = False\n"),
                           ("setup.cfg", "[mypy]\nimplicit_optional = True\n"),
                           ("pyproject.toml", "[tool.mypy]\nimplicit_optional = true\n")):
            with open(os.path.join(self.root, "decoy_file", name), "w", encoding="utf-8") as f:
                f.write(text)

    def destroy(self) -> None:
        shutil.rmtree(self.base, ignore_errors=True)

    # --- helpers used by histories
    def wipe_outputs(self) -> None:
        """Back to a pristine sandbox (out dir absent, no cwd artefacts) without touching the package."""
        for d in ("outs", "elsewhere", "ro", "bin", "home", "tmp"):
            p = os.path.join(self.root, d)
            shutil.rmtree(p, ignore_errors=True)
            os.makedirs(p)
        os.makedirs(os.path.join(self.root, "outs/deep"), exist_ok=True)
        for d in ("decoy_pkg", "decoy_file"):
            shutil.rmtree(os.path.join(self.root, d), ignore_errors=True)
            os.makedirs(os.path.join(self.root, d))
        self._make_decoys(self.pkg.get("top") or self.pkg["src_rel"].split("/")[0])
        for dirpath, dirnames, _files in os.walk(os.path.join(self.root, "S")):
            for dn in list(dirnames):
                if dn == ".mypy_cache":
                    shutil.rmtree(os.path.join(dirpath, dn), ignore_errors=True)
                    dirnames.remove(dn)
        p = os.path.join(self.root, ".mypy_cache")
        shutil.rmtree(p, ignore_errors=True)


def snapshot_tree(top: str, with_content: bool = True) -> dict:
    """{relpath: {"sha":…, "size":…, "text":…}} for files, {"dir":True} for dirs, {"link":target} for symlinks."""
    tree: dict = {}
    if not os.path.lexists(top):
        return tree
    if not os.path.isdir(top):
        return {".": {"notdir": True}}
    for dirpath, dirnames, filenames in os.walk(top):
        dirnames.sort()
        rel_dir = os.path.relpath(dirpath, top)
        for dn in list(dirnames):
            full = os.path.join(dirpath, dn)
            rel = dn if rel_dir == "." else f"{rel_dir}/{dn}"
            if os.path.islink(full):
                tree[rel] = {"link": os.readlink(full)}
                dirnames.remove(dn)
            else:
                tree[rel] = {"dir": True}
        for fn in sorted(filenames):
            full = os.path.join(dirpath, fn)
            rel = fn if rel_dir == "." else f"{rel_dir}/{fn}"
            if os.path.islink(full):
                tree[rel] = {"link": os.readlink(full)}
                continue
            with open(full, "rb") as f:
                data = f.read()
            ent = {"sha": hashlib.sha256(data).hexdigest(), "size": len(data)}
            if with_content:
                ent["data"] = data
            tree[rel] = ent
    return tree


def tree_digest(tree: dict) -> str:
    m = hashlib.sha256()
    for rel in sorted(tree):
        ent = tree[rel]
        m.update(rel.encode())
        m.update(b"\0")
        m.update(str(ent.get("sha") or ent.get("link") or "dir").encode())
        m.update(b"\n")
    return m.hexdigest()


def files_only(tree: dict) -> dict:
    return {k: v for k, v in tree.items() if "sha" in v}


# --------------------------------------------------------------------------- sigma -> job


def _spell(path: str, spelling: str, cwd: str, sb: Sandbox, is_out: bool) -> str:
    if spelling == "abs":
        return path
    if spelling == "rel":
        return os.path.relpath(path, cwd)
    if spelling == "trail":
        return path + "/"
    if spelling == "dot":
        rel = os.path.relpath(path, cwd)
        return rel if rel.startswith("..") else "./" + rel
    if spelling == "detour":
        parent, name = os.path.split(path)
        pp, pn = os.path.split(parent)
        return f"{pp}/{pn}/../{pn}/{name}"
    if spelling == "symlink":
        if is_out:
            return path.replace(os.path.join(sb.root, "outs"), os.path.join(sb.root, "outs_link"), 1)
        return path.replace(sb.proj, os.path.join(sb.root, "S/work/proj_link"), 1)
    if spelling == "symlink_dotdot":
        if is_out and path.startswith(os.path.join(sb.root, "outs") + "/"):
            return os.path.join(sb.root, "deep_link", "..", os.path.relpath(path, os.path.join(sb.root, "outs")))
        return path
    if spelling == "reltrail":
        return os.path.relpath(path, cwd) + "/"
    raise ValueError(spelling)


def options_to_argv(options: dict) -> list[str]:
    argv: list[str] = []
    if options.get("docstyle"):
        argv += ["--docstyle", options["docstyle"]]
    if options.get("tr"):
        argv += ["-tr"]
    if options.get("nc"):
        argv += ["-nc"]
    if options.get("tsp"):
        argv += ["-tsp", options["tsp"]]
    if options.get("tsw"):
        argv += ["-tsw", options["tsw"]]
    if options.get("verbose"):
        argv += ["-v"]
    return argv


def build_job(sb: Sandbox, options: dict, sigma: dict, faults: list, extra: dict | None = None) -> tuple[dict, dict]:
    """Translate a schedule vector into the concrete job file and environment of one child."""
    s = full_sigma(sigma)
    out = sb.out
    if s["out_spelling"] in ("nested", "nested_rel"):
        out = os.path.join(sb.root, "outs/new/a/b")
    cwd_kind = s["cwd"]
    src_sub = sb.src
    for dirpath, dirnames, _f in os.walk(sb.src):
        dirnames.sort()
        cands = [d for d in dirnames if not d.startswith(".")]
        if cands:
            src_sub = os.path.join(dirpath, cands[0])
        break
    src_testdir = src_sub
    for dirpath, dirnames, _f in os.walk(sb.src):
        dirnames.sort()
        hit = sorted(d for d in dirnames if d in ("test", "tests", "docs"))
        if hit:
            src_testdir = os.path.join(dirpath, hit[0])
            break
    cwd = {
        "src_testdir": src_testdir,
        "decoy_pkg": os.path.join(sb.root, "decoy_pkg"),
        "decoy_file": os.path.join(sb.root, "decoy_file"),
        "root": sb.root,
        "proj": sb.proj,
        "work": os.path.join(sb.root, "S/work"),
        "S": os.path.join(sb.root, "S"),
        "src": sb.src,
        "srcsub": src_sub,
        "out": out,
        "elsewhere": os.path.join(sb.root, "elsewhere"),
        "ro": os.path.join(sb.root, "ro"),
    }[cwd_kind]
    if cwd_kind == "out":
        os.makedirs(out, exist_ok=True)
    out_sp = {"nested": "abs", "nested_rel": "rel"}.get(s["out_spelling"], s["out_spelling"])
    src_arg = _spell(sb.src, s["src_spelling"], cwd, sb, False)
    out_arg = _spell(out, out_sp, cwd, sb, True)
    argv = ["-s", src_arg, "-o", out_arg, *options_to_argv(options)]

    inv = s["invocation"]
    env = {
        "PATH": "/usr/bin:/bin",
        "HOME": os.path.join(sb.root, "home"),
        "TMPDIR": os.path.join(sb.root, "tmp"),  # temporary files stay inside the sandbox, where left-overs are seen
        "PYTHONHASHSEED": str(s["hashseed"]),
        "PYTHONDONTWRITEBYTECODE": "1",
        "PYTHONWARNINGS": "ignore",
    }
    envp = dict(s["env"])
    umask = envp.pop("umask", 0o022)
    for k, v in envp.items():
        if v is not None:
            env[k] = str(v)
    sys_path0 = os.path.join(sb.root, "bin")
    if inv == "dash_m":
        sys_path0 = cwd
    elif inv.startswith("pythonpath"):
        d = int(inv[len("pythonpath") :])
        anc = sb.proj
        for _ in range(d):
            anc = os.path.dirname(anc)
        env["PYTHONPATH"] = anc
    sb.step_no += 1
    k = sb.step_no
    job = {
        "kind": "E",
        "repo_src": repo_src(),
        "harness_dir": HARNESS_DIR,
        "sandbox_root": sb.root,
        "cwd": cwd,
        "argv": argv,
        "sys_path0": sys_path0,
        "umask": umask,
        "enum": s["enum"],
        "obj": s["obj"],
        "faults": faults or [],
        "readonly_dirs": [os.path.join(sb.root, "ro")] if cwd_kind == "ro" else [],
        "events_path": os.path.join(sb.ctl, f"step{k}.events"),
        "result_path": os.path.join(sb.ctl, f"step{k}.result.json"),
        "out_dir": out,
        "src_dir": sb.src,
    }
    if extra:
        job.update(extra)
    return job, env


def read_events(path: str) -> list[dict]:
    evs = []
    try:
        with open(path, encoding="utf-8") as f:
            for line in f:
                line = line.strip()
                if line:
                    try:
                        evs.append(json.loads(line))
                    except ValueError:
                        evs.append({"op": "_garbled"})
    except FileNotFoundError:
        pass
    return evs


def run_child(sb: Sandbox, job: dict, env: dict, timeout: float) -> dict:
    k = sb.step_no
    job_path = os.path.join(sb.ctl, f"step{k}.job.json")
    with open(job_path, "w", encoding="utf-8") as f:
        json.dump(job, f)
    so = os.path.join(sb.ctl, f"step{k}.stdout")
    se = os.path.join(sb.ctl, f"step{k}.stderr")
    t0 = time.monotonic()
    timed_out = False
    with open(so, "wb") as fo, open(se, "wb") as fe:
        proc = subprocess.Popen(  # noqa: S603
            [PYTHON, "-X", "faulthandler", os.path.join(HARNESS_DIR, "child.py"), job_path],
            stdout=fo,
            stderr=fe,
            stdin=subprocess.DEVNULL,
            env=env,
            cwd=sb.root,
            start_new_session=True,
        )
        try:
            rc = proc.wait(timeout=timeout)
        except subprocess.TimeoutExpired:
            timed_out = True
            try:
                import signal

                os.killpg(proc.pid, signal.SIGKILL)
            except ProcessLookupError:
                pass
            rc = proc.wait()
    wall = time.monotonic() - t0
    res: dict
    try:
        with open(job["result_path"], encoding="utf-8") as f:
            res = json.load(f)
    except (FileNotFoundError, ValueError):
        res = {}
    if timed_out:
        res = {"outcome": "timeout"}
    elif not res:
        if rc == 137 or rc == -9:
            res = {"outcome": "died"}
        else:
            res = {"outcome": "harness_error", "error": f"child exit code {rc} without result"}
    res["exit_code"] = rc
    res["wall"] = wall
    res["event_log"] = read_events(job["events_path"])
    if res["outcome"] in ("harness_error", "timeout") or os.environ.get("VSIM_KEEP_STDERR"):
        try:
            with open(se, "rb") as f:
                res["stderr_tail"] = f.read()[-3000:].decode("utf-8", "replace")
        except OSError:
            pass
    return res


def prelude_version(rel: str, text: str) -> str:
    """An earlier version of a module: other documentation texts, one more function, other defaults."""
    out = text.replace("Summary TK", "Earlier summary TK").replace("About TK", "Earlier text about TK").replace("Outcome TK", "Earlier outcome TK")
    out = out.replace("Module summary TK", "Earlier module summary TK").replace(" = 0)", " = 10)")
    # ... every documentation text that carries a token, every integer default (so that members of private base classes,
    # which other classes inline, differ between the two versions as well)
    richer = re.sub(r'"""([A-Za-z][A-Za-z ]*?) (TK[A-Z][0-9]{4}Z)', r'"""Earlier \1 \2', out)
    richer = re.sub(r"= ([0-9]+)([,)])", r"= 1\g<1>\2", richer)
    try:
        compile(richer, rel, "exec")
        out = richer
    except SyntaxError:
        pass
    name = os.path.basename(rel)[:-3].strip("_") or "m"
    return out + f'\n\ndef only_in_earlier_version_{name}(q: int = 3) -> int:\n    """Only the earlier version has this function."""\n    return q\n'


def src_digest(sb: Sandbox) -> str:
    return tree_digest(snapshot_tree(sb.proj, with_content=False))


def run_step(sb: Sandbox, options: dict, step: dict, timeout: float = 180.0) -> dict:
    if step.get("fresh"):
        sb.wipe_outputs()
    for rel, text in (step.get("prepop_files") or {}).items():
        p = os.path.join(sb.out, rel)
        os.makedirs(os.path.dirname(p), exist_ok=True)
        with open(p, "w", encoding="utf-8") as f:
            f.write(text)
    for rel in step.get("prepop_dirs") or []:
        os.makedirs(os.path.join(sb.out, rel), exist_ok=True)
    before = src_digest(sb)
    extra = dict(step.get("job_extra") or {})
    if step.get("library_entry"):
        extra["library_entry"] = True
    if step.get("prelude_edit"):
        # the same process first analyses the same paths while the files still hold OTHER contents (an edited version of
        # the package); the child then restores the files, empties the output directory and does the run that is judged
        extra["prelude_files"] = {os.path.join(sb.proj, rel): prelude_version(rel, text) for rel, text in sorted(sb.pkg["files"].items())
                                  if rel.endswith(".py") and not rel.endswith("__init__.py")}
    job, env = build_job(sb, step.get("options") or options, step.get("sigma") or {}, step.get("faults") or [], extra or None)
    res = run_child(sb, job, env, step.get("timeout", timeout))
    exc_ = res.get("exception") or {}
    if (res.get("outcome") == "failed" and str(exc_.get("type", "")).startswith("Unicode") and "surrogates not allowed" in str(exc_.get("message", ""))
            and not exc_.get("innermost_is_tool") and any(ord(ch) > 127 for rel in sb.pkg["files"] for ch in rel)):
        # A package with non-ASCII FILE NAMES run under a locale whose file-system encoding is ASCII: Python hands out the
        # names with surrogate escapes and the type checker cannot encode them. The environment cannot represent this input;
        # no property quantifies over that (the judges treat it like a package the type checker cannot load).
        res["outcome"] = "not_loadable"
        res["env_unrepresentable"] = True
    res["sigma"] = full_sigma(step.get("sigma"))
    res["faults"] = step.get("faults") or []
    res["out_dir_rel"] = os.path.relpath(job["out_dir"], sb.root)
    res["cwd_rel"] = os.path.relpath(job["cwd"], sb.root)
    res["out_tree"] = snapshot_tree(job["out_dir"])
    res["src_unchanged"] = before == src_digest(sb)
    # everything that appeared in the sandbox outside the package and outside out
    res["root_tree"] = {
        k: v
        for k, v in snapshot_tree(sb.root, with_content=False).items()
        if not (k == res["out_dir_rel"] or k.startswith(res["out_dir_rel"] + "/"))
    }
    res["argv"] = job["argv"]
    return res


def run_history(tag: str, pkg: dict, options: dict, steps: list[dict], timeout: float = 180.0) -> list[dict]:
    sb = Sandbox(tag, pkg)
    try:
        return [run_step(sb, options, st, timeout) for st in steps]
    finally:
        sb.destroy()


# --------------------------------------------------------------------------- parallel map


def workers_default() -> int:
    try:
        return max(1, int(os.environ.get("VERIF_WORKERS", "") or (os.cpu_count() or 4)))
    except ValueError:
        return os.cpu_count() or 4


def map_cases(cases: list, run_case, workers: int | None = None, on_done=None) -> list:  # noqa: ANN001
    """Run run_case(index, case) for every case with bounded parallelism; results in index order.

    run_case may itself fan out histories through `pool_map` (shared pool), so one slow case does
    not serialise the batch.  on_done(index, result) is called in the main thread, in index order.
    """
    workers = workers or workers_default()
    results: list = [None] * len(cases)
    with ThreadPoolExecutor(max_workers=workers) as ex:
        futs = [ex.submit(run_case, i, c) for i, c in enumerate(cases)]
        for i, fu in enumerate(futs):
            results[i] = fu.result()
            if on_done is not None:
                on_done(i, results[i])
    return results


class HistoryPool:
    """Flat pool over histories: submit many, collect by key; at most `workers` children at a time."""

    def __init__(self, workers: int | None = None) -> None:
        self.workers = workers or workers_default()
        self.ex = ThreadPoolExecutor(max_workers=self.workers)

    def submit(self, tag: str, pkg: dict, options: dict, steps: list[dict], timeout: float = 180.0):  # noqa: ANN201
        return self.ex.submit(run_history, tag, pkg, options, steps, timeout)

    def shutdown(self) -> None:
        self.ex.shutdown(wait=True, cancel_futures=True)


if __name__ == "__main__":
    # tiny smoke test: python -m vsim.runner
    pkg = {
        "files": {"mypkg/__init__.py": "", "mypkg/m.py": "class A:\n    pass\n\ndef f() -> A:\n    return A()\n"},
        "src_rel": "mypkg",
    }
    r = run_history("smoke", pkg, {}, [{"sigma": {}}])[0]
    print(r["outcome"], r.get("exception"), sorted(r["out_tree"]), len(r["event_log"]), r["wall"])
    for ev in r["event_log"][:12]:
        print(ev)
    sys.exit(0 if r["outcome"] == "completed" else 1)
