"""Hand-written package SHAPES (layouts, not declaration forms): unusual but legal ways a source tree can look.
They complement the generated packages as workload for C01/C08/C10 (found: a module named like its package, a BOM file)."""
from __future__ import annotations

BASE = "class A:\n    def m(self, x: int) -> int: ...\n\ndef f(a: A) -> A: ...\n"
SHAPES = {
 "namespace_top": ({"ns/sub/__init__.py": "", "ns/sub/m.py": BASE}, "ns"),
 "no_init_at_all": ({"flat/m.py": BASE, "flat/n.py": "from m import A\n\ndef g(a: A) -> None: ...\n"}, "flat"),
 "pkg_same_as_module": ({"pkg/__init__.py": "", "pkg/pkg.py": BASE}, "pkg"),
 "unicode_module": ({"pkg/__init__.py": "", "pkg/módulo.py": BASE}, "pkg"),
 "main_and_setup": ({"pkg/__init__.py": "", "pkg/__main__.py": "print(1)\n", "pkg/setup.py": BASE, "pkg/conftest.py": BASE}, "pkg"),
 "circular": ({"pkg/__init__.py": "", "pkg/a.py": "from pkg.b import B\nclass A:\n    def to_b(self) -> B: ...\n", "pkg/b.py": "from pkg.a import A\nclass B:\n    def to_a(self) -> A: ...\n"}, "pkg"),
 "pyi_next_to_py": ({"pkg/__init__.py": "", "pkg/m.py": BASE, "pkg/m.pyi": "class A:\n    def m(self, x: int) -> int: ...\ndef f(a: A) -> A: ...\n"}, "pkg"),
 "init_with_code": ({"pkg/__init__.py": BASE + "\nfrom .m import *\n", "pkg/m.py": "def h() -> int: ...\n"}, "pkg"),
 "only_init": ({"pkg/__init__.py": BASE}, "pkg"),
 "deep": ({**{"/".join(["p"+str(i) for i in range(k+1)])+"/__init__.py": "" for k in range(8)}, "/".join(["p"+str(i) for i in range(8)])+"/m.py": BASE}, "p0"),
 "dash_dir": ({"my-proj/pkg/__init__.py": "", "my-proj/pkg/m.py": BASE}, "my-proj"),
 "space_dir": ({"my proj/pkg/__init__.py": "", "my proj/pkg/m.py": BASE}, "my proj"),
 "keyword_module": ({"pkg/__init__.py": "", "pkg/class.py": BASE, "pkg/import.py": BASE}, "pkg"),
 "two_levels_reexport_chain": ({"pkg/__init__.py": "from pkg.a import Thing\n", "pkg/a/__init__.py": "from pkg.a.b import Thing\n", "pkg/a/b/__init__.py": "from pkg.a.b._impl import Thing\n", "pkg/a/b/_impl.py": "class Thing:\n    def m(self) -> 'Thing': ...\n", "pkg/user.py": "from pkg import Thing\ndef use(t: Thing) -> Thing: ...\n"}, "pkg"),
 "type_checking_import": ({"pkg/__init__.py": "", "pkg/m.py": "from __future__ import annotations\nfrom typing import TYPE_CHECKING\nif TYPE_CHECKING:\n    from pkg.n import N\n\ndef f(n: N) -> N: ...\n", "pkg/n.py": "class N: ...\n"}, "pkg"),
 "star_import_chain": ({"pkg/__init__.py": "from .a import *\n", "pkg/a.py": "from .b import *\n", "pkg/b.py": "class B: ...\ndef fb() -> B: ...\n__all__ = ['B', 'fb']\n"}, "pkg"),
 "dunder_all_only": ({"pkg/__init__.py": "from ._m import X\n__all__ = ['X']\n", "pkg/_m.py": "class X: ...\nclass _Y: ...\n"}, "pkg"),
 "syntax_error": ({"pkg/__init__.py": "", "pkg/m.py": "def f(:\n"}, "pkg"),
 "empty_module": ({"pkg/__init__.py": "", "pkg/m.py": "", "pkg/n.py": BASE}, "pkg"),
 "bom_and_crlf": ({"pkg/__init__.py": "", "pkg/m.py": "\ufeff" + BASE.replace("\n", "\r\n")}, "pkg"),
}

SHAPES.pop("syntax_error", None)  # not loadable by the type checker: outside every property

NAMES = sorted(SHAPES)


def shape_package(k: int) -> dict:
    name = NAMES[k % len(NAMES)]
    files, src = SHAPES[name]
    return {"files": dict(files), "src_rel": src, "top": src.split("/")[0], "features": ["SHAPE", name], "doc_style": "PLAINTEXT",
            "meta": {"tokens": {}, "probes": {}}, "name": f"shape-{name}"}
